#!/usr/bin/env python3
"""Prints a markdown table of the as-built sub-checks per property from the evidence files
(quick tier): evaluations per sub-check, distinct non-trivial cases, wall time."""
import json, glob
rows = []
for p in sorted(glob.glob("/verif/evidence/C*.json")):
    d = json.load(open(p)); c = d["coverage"]
    subs = ", ".join(f"{k} {v}" for k, v in c.get("evaluations_per_sub", {}).items())
    fz = [k for k in c if k.startswith("fuzz/")]
    if fz:
        subs += "; " + ", ".join(f"{k} (thorough)" for k in fz)
    rows.append(f"| {d['property_id']} | {d['tier']} | {subs} | {c['evaluations']} | {c['distinct_nontrivial']} | {c.get('inner_evaluations', 0)} | {d['wall_s']} |")
print("| property | tier | sub-checks and evaluations | evaluations | distinct non-trivial | inner evaluations | wall s |")
print("|---|---|---|---|---|---|---|")
print("\n".join(rows))
