#![no_main]
use libfuzzer_sys::fuzz_target;

fuzz_target!(|data: &[u8]| {
    smverif::props::c20::fuzz_one(data);
});
