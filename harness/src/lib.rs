//! Property-based verification harness for getsentry/rust-sourcemap (see /verif/DESIGN.md).
pub mod engine;
pub mod model;
pub mod props;
pub mod refimpl;

#[global_allocator]
static GLOBAL: engine::CountingAlloc = engine::CountingAlloc;
