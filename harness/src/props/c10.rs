//! C10 — adjust_mappings composes the two maps interval by interval.

use proptest::collection::vec;
use proptest::prelude::*;
use serde::{Deserialize, Serialize};

use crate::engine::{enum_sub, gen_sub, guard, Obs, PropertyDef, Sub, Tier, Verdict};
use crate::model::*;
use crate::refimpl::v3::RefSrc;
use crate::{ensure, ensure_eq};

/// Original token: generated position + payload id (the payload is derived from the id).
#[derive(Clone, Debug, Hash, PartialEq, Eq, Serialize, Deserialize)]
pub struct OTok {
    pub pos: (u32, u32),
    pub payload: u8,
}

/// Adjustment token: maps its *generated* position `dst` to its *original* position `src`.
#[derive(Clone, Debug, Hash, PartialEq, Eq, Serialize, Deserialize)]
pub struct ATok {
    pub src: (u32, u32),
    pub dst: (u32, u32),
}

#[derive(Clone, Debug, Hash, Serialize, Deserialize)]
pub struct Case {
    pub orig: Vec<OTok>,
    pub adj: Vec<ATok>,
    pub route: Route,
}

fn payload(p: u8) -> (Option<RefSrc>, bool) {
    // payload 0 = sourceless; others: distinct original positions, some with names / range flag
    if p == 0 {
        (None, false)
    } else {
        (
            Some(RefSrc {
                id: u32::from(p % 2),
                line: u32::from(p) * 3,
                col: u32::from(p) * 7 + 1,
                name: if p % 3 == 0 { Some(0) } else { None },
            }),
            p % 4 == 1,
        )
    }
}

fn orig_model(c: &Case) -> MM {
    MM {
        file: Some("orig.js".into()),
        // (a source root on the original map in a third of the cases: the tokens' source *names* are
        // part of what the result carries)
        root: match c.orig.len() % 3 {
            0 => Some("webpack:///src".into()),
            _ => None,
        },
        sources: vec!["s0.js".into(), "s1.js".into()],
        contents: vec![Some("content 0".into()), None],
        names: vec!["nm".into()],
        tokens: c
            .orig
            .iter()
            .map(|o| {
                let (src, range) = payload(o.payload);
                MTok { dl: o.pos.0, dc: o.pos.1, src, range, junk: (0, 0) }
            })
            .collect(),
        ignore: vec![],
        debug_id: None,
        route: c.route,
        json: JsonStyle::default(),
    }
}

fn adj_model(c: &Case) -> MM {
    MM {
        file: None,
        root: None,
        sources: vec!["edited.js".into()],
        contents: vec![],
        names: vec![],
        tokens: c
            .adj
            .iter()
            .map(|a| MTok {
                dl: a.dst.0,
                dc: a.dst.1,
                src: Some(RefSrc { id: 0, line: a.src.0, col: a.src.1, name: None }),
                range: false,
                junk: (0, 0),
            })
            .collect(),
        ignore: vec![],
        debug_id: None,
        // insertion order is kept by the raw route (the crate has to sort by original position)
        route: Route::Raw,
        json: JsonStyle::default(),
    }
}

type Pos = (u32, u32);

fn stretches(starts: Vec<(Pos, usize)>) -> Vec<(Pos, Pos, usize)> {
    stretches_ordered(orderings(starts, 1).remove(0))
}

/// `starts` already in the order to use (sorted by position, ties in a chosen order).
fn stretches_ordered(starts: Vec<(Pos, usize)>) -> Vec<(Pos, Pos, usize)> {
    (0..starts.len())
        .map(|i| {
            let (s, k) = starts[i];
            let eol = (s.0, u32::MAX);
            let next = starts.get(i + 1).map(|n| n.0).unwrap_or((u32::MAX, u32::MAX));
            (s, next.min(eol), k)
        })
        .collect()
}

/// All orders of `starts` that are sorted by position (tokens sharing a position in every
/// permutation; the crate sorts with an unstable sort, so the statement fixes no order among
/// them). At most `cap` orderings are returned, the stable one first.
fn orderings(mut starts: Vec<(Pos, usize)>, cap: usize) -> Vec<Vec<(Pos, usize)>> {
    starts.sort_by_key(|s| s.0);
    let mut result: Vec<Vec<(Pos, usize)>> = vec![vec![]];
    let mut i = 0;
    while i < starts.len() {
        let mut j = i;
        while j < starts.len() && starts[j].0 == starts[i].0 {
            j += 1;
        }
        let group = &starts[i..j];
        let perms = permutations(group);
        let mut next = vec![];
        'outer: for r in &result {
            for p in &perms {
                let mut v = r.clone();
                v.extend_from_slice(p);
                next.push(v);
                if next.len() >= cap.max(1) && perms.len() > 1 {
                    // keep going only for the stable prefix
                    if next.len() >= cap {
                        break 'outer;
                    }
                }
            }
        }
        result = next;
        i = j;
    }
    result
}

fn permutations<T: Clone>(items: &[T]) -> Vec<Vec<T>> {
    if items.len() <= 1 {
        return vec![items.to_vec()];
    }
    let mut out = vec![];
    for i in 0..items.len() {
        let mut rest = items.to_vec();
        let x = rest.remove(i);
        for mut p in permutations(&rest) {
            p.insert(0, x.clone());
            out.push(p);
        }
    }
    out
}

#[derive(Clone, Debug, PartialEq, Eq, PartialOrd, Ord)]
struct RTok {
    pos: Pos,
    payload: u8,
}

fn displace(p: Pos, a: &ATok) -> Pos {
    (
        (i64::from(p.0) + i64::from(a.dst.0) - i64::from(a.src.0)) as u32,
        (i64::from(p.1) + i64::from(a.dst.1) - i64::from(a.src.1)) as u32,
    )
}

/// (reference tokens, candidates that only a zero-length stretch could explain), for one
/// choice of order among tokens that share a position.
fn reference_for(c: &Case, os: &[(Pos, Pos, usize)], asx: &[(Pos, Pos, usize)]) -> (Vec<RTok>, Vec<RTok>) {
    let mut out = vec![];
    let mut zero = vec![];
    for &(o_s, o_e, oi) in os {
        for &(a_s, a_e, ai) in asx {
            let lo = o_s.max(a_s);
            let hi = o_e.min(a_e);
            let t = RTok { pos: displace(lo, &c.adj[ai]), payload: c.orig[oi].payload };
            if lo < hi {
                out.push(t);
            } else if (o_s == o_e && a_s <= o_s && o_s <= a_e) || (a_s == a_e && o_s <= a_s && a_s <= o_e) {
                // an empty stretch touching the other one (K1 candidates)
                zero.push(t);
            }
        }
    }
    out.sort();
    zero.sort();
    (out, zero)
}

/// Every reference the statement allows (one per order of the tokens sharing a position).
fn references(c: &Case) -> Vec<(Vec<RTok>, Vec<RTok>)> {
    let oo = orderings(c.orig.iter().enumerate().map(|(i, o)| (o.pos, i)).collect(), 24);
    let ao = orderings(c.adj.iter().enumerate().map(|(i, a)| (a.src, i)).collect(), 24);
    let mut out = vec![];
    for o in &oo {
        let os = stretches_ordered(o.clone());
        for a in &ao {
            let asx = stretches_ordered(a.clone());
            out.push(reference_for(c, &os, &asx));
        }
    }
    out
}

fn payload_of(t: &sourcemap::Token<'_>) -> Option<u8> {
    // inverse of `payload`
    if !t.has_source() {
        return Some(0);
    }
    let line = t.get_src_line();
    if line % 3 != 0 || line == 0 || line / 3 > 255 {
        return None;
    }
    let p = (line / 3) as u8;
    let (want, range) = payload(p);
    let want = want?;
    let ok = t.get_src_id() == want.id
        && t.get_src_col() == want.col
        && (t.get_name_id() != !0) == want.name.is_some()
        && t.is_range() == range;
    if ok {
        Some(p)
    } else {
        None
    }
}

fn check(c: &Case, obs: &mut Obs) -> Verdict {
    let mut sm = match orig_model(c).build() {
        Ok(m) => m,
        Err(e) => return Verdict::Fail(e),
    };
    let adj = match adj_model(c).build() {
        Ok(m) => m,
        Err(e) => return Verdict::Fail(e),
    };
    let before = obs_map(&sm);
    if let Err(p) = guard(|| sm.adjust_mappings(&adj)) {
        return Verdict::Fail(format!("adjust_mappings: {p}"));
    }
    let after = obs_map(&sm);
    ensure!(after.positions_sorted(), "result is not ordered by generated position: {:?}", after.tokens.iter().map(|t| (t.dl, t.dc)).collect::<Vec<_>>());
    ensure_eq!(after.sources, before.sources, "sources changed");
    ensure_eq!(after.names, before.names, "names changed");
    ensure_eq!(after.contents, before.contents, "contents changed");
    let mut got: Vec<RTok> = vec![];
    for t in sm.tokens() {
        match payload_of(&t) {
            Some(p) => got.push(RTok { pos: t.get_dst(), payload: p }),
            None => return Verdict::Fail(format!("result token {t:?} does not carry the source/original position/name/range flag of any original token")),
        }
    }
    got.sort();
    let refs = references(c);

    // classes
    let mut opos: Vec<Pos> = c.orig.iter().map(|o| o.pos).collect();
    opos.sort();
    let mut apos: Vec<Pos> = c.adj.iter().map(|a| a.src).collect();
    apos.sort();
    let dup = opos.windows(2).any(|w| w[0] == w[1]) || apos.windows(2).any(|w| w[0] == w[1]);
    obs.class_if(dup, "duplicate-positions");
    obs.class_if(c.orig.is_empty(), "empty-original");
    obs.class_if(c.adj.is_empty(), "empty-adjustment");
    obs.class_if(c.adj.iter().any(|a| a.dst.0 != a.src.0), "multi-line-displacement");
    obs.class_if(c.adj.windows(2).any(|w| w[0].src > w[1].src), "adjustment-given-out-of-order");
    let os = stretches(c.orig.iter().enumerate().map(|(i, o)| (o.pos, i)).collect());
    let asx = stretches(c.adj.iter().enumerate().map(|(i, a)| (a.src, i)).collect());
    let split = os.iter().any(|o| asx.iter().any(|a| o.0 < a.0 && a.0 < o.1));
    let swallow = asx.iter().any(|a| os.iter().filter(|o| a.0 <= o.0 && o.0 < a.1).count() >= 2);
    let disjoint = os.iter().any(|o| asx.iter().all(|a| o.0.max(a.0) >= o.1.min(a.1)));
    obs.class_if(split, "original-stretch-split-by-adjustment-boundary");
    obs.class_if(swallow, "adjustment-stretch-covers>=2-originals");
    obs.class_if(disjoint, "original-stretch-without-overlap");
    if c.orig.len() >= 2 && c.adj.len() >= 2 && split && swallow {
        obs.nontrivial();
    }

    verdict_from(&refs, &got, dup, &format!("orig {:?}, adj {:?}", c.orig, c.adj))
}

/// Compares the result with every reference the statement allows; K1 (extra tokens that only a
/// zero-length stretch explains, nothing missing, duplicated positions present) is reported as
/// the known finding, everything else as a failure.
fn verdict_from<T: Ord + Clone + std::fmt::Debug>(refs: &[(Vec<T>, Vec<T>)], got: &[T], dup: bool, what: &str) -> Verdict {
    if refs.iter().any(|(want, _)| want.as_slice() == got) {
        return Verdict::Pass;
    }
    let mut report = String::new();
    for (want, zero) in refs {
        let mut extra = vec![];
        let mut w = want.clone();
        for g in got {
            if let Some(i) = w.iter().position(|x| x == g) {
                w.remove(i);
            } else {
                extra.push(g.clone());
            }
        }
        let missing = w;
        if missing.is_empty() && dup {
            let mut z = zero.clone();
            let all = extra.iter().all(|e| match z.iter().position(|x| x == e) {
                Some(i) => {
                    z.remove(i);
                    true
                }
                None => false,
            });
            if all {
                return Verdict::Known("K1", format!("{} extra token(s) {:?} for zero-length stretches ({what})", extra.len(), extra));
            }
        }
        if report.is_empty() {
            report = format!("missing {missing:?}, extra {extra:?}; result {got:?}, reference {want:?}");
        }
    }
    Verdict::Fail(format!(
        "adjust_mappings result differs from the interval composition (for every order of the tokens sharing a position; {} order(s) tried): {report}",
        refs.len()
    ))
}

// --- chains: maps reused across several compositions ------------------------------------------

#[derive(Clone, Debug, Hash, Serialize, Deserialize)]
pub enum ChainMap {
    Orig(Vec<OTok>),
    Adj(Vec<ATok>),
}

#[derive(Clone, Debug, Hash, Serialize, Deserialize)]
pub enum ChainOp {
    /// `maps[i].adjust_mappings(&maps[j])`
    Adjust(u8, u8),
    /// read-only use of `maps[i]` (lookups, serialisation, iteration) between compositions
    Touch(u8),
}

#[derive(Clone, Debug, Hash, Serialize, Deserialize)]
pub struct ChainCase {
    pub maps: Vec<(ChainMap, Route)>,
    pub ops: Vec<ChainOp>,
}

type Full = (Pos, (u32, u32, u32, u32, bool));

fn raw_tokens(sm: &sourcemap::SourceMap) -> Vec<sourcemap::RawToken> {
    sm.tokens().map(|t| t.get_raw_token()).collect()
}

fn max_tie(mut v: Vec<Pos>) -> usize {
    v.sort();
    let mut best = 0;
    let mut i = 0;
    while i < v.len() {
        let mut j = i;
        while j < v.len() && v[j] == v[i] {
            j += 1;
        }
        best = best.max(j - i);
        i = j;
    }
    best
}

/// Every composition in a chain is a plain "compose a map with an adjustment map as they are at
/// the time of the call": the states are read through `tokens()` before the call and the result
/// is judged against the interval composition of exactly those two token lists.
fn check_chain(c: &ChainCase, obs: &mut Obs) -> Verdict {
    let mut maps = vec![];
    for (m, route) in &c.maps {
        let built = match m {
            ChainMap::Orig(o) => orig_model(&Case { orig: o.clone(), adj: vec![], route: *route }).build(),
            ChainMap::Adj(a) => adj_model(&Case { orig: vec![], adj: a.clone(), route: *route }).build(),
        };
        match built {
            Ok(m) => maps.push(m),
            Err(e) => return Verdict::Fail(e),
        }
    }
    let mut known: Option<Verdict> = None;
    let mut used_as_adj = vec![false; maps.len()];
    let mut adjusted_after_use = vec![false; maps.len()];
    let mut steps = 0;
    for (k, op) in c.ops.iter().enumerate() {
        match *op {
            ChainOp::Touch(i) => {
                let sm = &maps[i as usize % maps.len()];
                let r = guard(|| {
                    let mut n = 0usize;
                    for t in sm.tokens() {
                        let (l, col) = t.get_dst();
                        n += usize::from(sm.lookup_token(l, col).is_some());
                    }
                    let _ = sm.lookup_token(0, 0);
                    let _ = sm.lookup_token(u32::MAX, u32::MAX);
                    let mut out = vec![];
                    sm.to_writer(&mut out).map(|_| n + out.len()).map_err(|e| e.to_string())
                });
                match r {
                    Ok(Ok(_)) => {}
                    Ok(Err(e)) => return Verdict::Fail(format!("op {k} {op:?}: serialising failed: {e}")),
                    Err(p) => return Verdict::Fail(format!("op {k} {op:?}: {p}")),
                }
            }
            ChainOp::Adjust(i, j) => {
                let (i, j) = (i as usize % maps.len(), j as usize % maps.len());
                let alias = i == j;
                let pre_i = raw_tokens(&maps[i]);
                let pre_j = raw_tokens(&maps[j]);
                // domain: adjustment tokens all have a source; payload index fits u8; tie groups small
                // enough for every order to be tried
                if pre_j.iter().any(|t| t.src_id == !0) {
                    continue;
                }
                let tie = max_tie(pre_i.iter().map(|t| (t.dst_line, t.dst_col)).collect()).max(max_tie(pre_j.iter().map(|t| (t.src_line, t.src_col)).collect()));
                if pre_i.len() > 200 || pre_j.len() > 200 || tie > 4 {
                    obs.class("chain-stopped(size or tie group beyond what the reference enumerates)");
                    break;
                }
                // aliasing: a map composed with (a clone of) itself - the clone is parked in the pool for this step
                let j = if alias {
                    let copy = maps[i].clone();
                    maps.push(copy);
                    maps.len() - 1
                } else {
                    j
                };
                let before = obs_map(&maps[i]);
                // the adjustment is passed by reference to the very object that stays in the pool
                let (head, tail) = maps.split_at_mut(i.max(j));
                let (target, adjref) = if i < j { (&mut head[i], &tail[0]) } else { (&mut tail[0], &head[j]) };
                if let Err(p) = guard(|| target.adjust_mappings(adjref)) {
                    return Verdict::Fail(format!("op {k} {op:?}: adjust_mappings: {p}"));
                }
                let after = obs_map(&maps[i]);
                ensure!(after.positions_sorted(), "op {k} {op:?}: result is not ordered by generated position");
                ensure_eq!(after.sources, before.sources, "op {k}: sources changed");
                ensure_eq!(after.names, before.names, "op {k}: names changed");
                ensure_eq!(after.contents, before.contents, "op {k}: contents changed");
                ensure_eq!(raw_tokens(&maps[j]), pre_j, "op {k}: the adjustment map itself changed");
                let case = Case {
                    orig: pre_i.iter().enumerate().map(|(n, t)| OTok { pos: (t.dst_line, t.dst_col), payload: n as u8 }).collect(),
                    adj: pre_j.iter().map(|t| ATok { src: (t.src_line, t.src_col), dst: (t.dst_line, t.dst_col) }).collect(),
                    route: Route::Raw,
                };
                let full = |r: &RTok| -> Full {
                    let t = &pre_i[r.payload as usize];
                    (r.pos, (t.src_id, t.src_line, t.src_col, t.name_id, t.is_range))
                };
                let refs: Vec<(Vec<Full>, Vec<Full>)> = references(&case)
                    .into_iter()
                    .map(|(w, z)| {
                        let mut w: Vec<Full> = w.iter().map(full).collect();
                        let mut z: Vec<Full> = z.iter().map(full).collect();
                        w.sort();
                        z.sort();
                        (w, z)
                    })
                    .collect();
                let mut got: Vec<Full> = raw_tokens(&maps[i])
                    .iter()
                    .map(|t| ((t.dst_line, t.dst_col), (t.src_id, t.src_line, t.src_col, t.name_id, t.is_range)))
                    .collect();
                got.sort();
                let dup = tie > 1;
                match verdict_from(&refs, &got, dup, &format!("op {k} {op:?}: target tokens {pre_i:?}, adjustment tokens {pre_j:?}")) {
                    Verdict::Pass => {}
                    v @ Verdict::Known(..) => known = Some(v),
                    Verdict::Fail(m) => return Verdict::Fail(format!("op {k} {op:?} (target tokens {pre_i:?}, adjustment tokens {pre_j:?}): {m}")),
                }
                steps += 1;
                if used_as_adj[i] {
                    adjusted_after_use[i] = true;
                }
                if !alias {
                    if adjusted_after_use[j] {
                        obs.class("adjustment-reused-after-being-adjusted-itself");
                        obs.nontrivial();
                    }
                    used_as_adj[j] = true;
                }
                obs.class_if(dup, "chain-step-with-duplicate-positions");
                if alias {
                    maps.pop();
                    obs.class("map-composed-with-a-clone-of-itself");
                }
            }
        }
    }
    obs.class(match steps {
        0 => "chain-0-compositions",
        1 => "chain-1-composition",
        2 => "chain-2-compositions",
        _ => "chain>=3-compositions",
    });
    known.unwrap_or(Verdict::Pass)
}

fn chains(_t: Tier) -> BoxedStrategy<ChainCase> {
    let route = || prop_oneof![Just(Route::Raw), Just(Route::Builder), Just(Route::Doc)];
    let orig = (vec((pos_strategy(3, 8), 0u8..12), 0..6), route())
        .prop_map(|(o, r)| (ChainMap::Orig(distinct_by(o, |x| x.0).into_iter().map(|(pos, payload)| OTok { pos, payload }).collect()), r));
    let adj = (vec((pos_strategy(3, 8), pos_strategy(4, 10)), 1..4), route())
        .prop_map(|(a, r)| (ChainMap::Adj(distinct_by(a, |x| x.0).into_iter().map(|(src, dst)| ATok { src, dst }).collect()), r));
    (vec(orig, 1..3), vec(adj, 2..4), vec((0u8..3, any::<u16>(), any::<u16>()), 2..8))
        .prop_map(|(o, a, ops)| {
            let no = o.len();
            let na = a.len();
            let n = no + na;
            let pick = |x: u16, len: usize| ((x as usize * len) >> 16) as u8;
            let ops = ops
                .into_iter()
                .map(|(kind, x, y)| {
                    if kind == 0 {
                        ChainOp::Touch(pick(x, n))
                    } else {
                        // the adjustment side is always a map whose tokens all have a source
                        ChainOp::Adjust(pick(x, n), no as u8 + pick(y, na))
                    }
                })
                .collect();
            ChainCase { maps: o.into_iter().chain(a).collect(), ops }
        })
        .boxed()
}

// --- generators ----------------------------------------------------------------------------

fn grid(lines: u32, cols: u32) -> Vec<Pos> {
    (0..lines).flat_map(|l| (0..cols).map(move |c| (l, c))).collect()
}

fn subsets<T: Clone>(items: &[T], max: usize) -> Vec<Vec<T>> {
    let mut out = vec![vec![]];
    let mut frontier: Vec<(Vec<T>, usize)> = vec![(vec![], 0)];
    for _ in 0..max {
        let mut next = vec![];
        for (set, from) in &frontier {
            for i in *from..items.len() {
                let mut s = set.clone();
                s.push(items[i].clone());
                out.push(s.clone());
                next.push((s, i + 1));
            }
        }
        frontier = next;
    }
    out
}

/// 2 lines x 4 columns: original position sets of size <= 3 x adjustment token sets of size
/// <= 2 (distinct original positions) with every (src, dst) combination.
fn exhaustive(_t: Tier) -> Box<dyn Iterator<Item = Case>> {
    let g = grid(2, 4);
    let origs = subsets(&g, 3);
    let mut adj_sets: Vec<Vec<ATok>> = vec![vec![]];
    for &s in &g {
        for &d in &g {
            adj_sets.push(vec![ATok { src: s, dst: d }]);
        }
    }
    for (i, &s1) in g.iter().enumerate() {
        for &s2 in &g[i + 1..] {
            for &d1 in &g {
                for &d2 in &g {
                    // second token first: adjustment tokens arrive in any order
                    adj_sets.push(vec![ATok { src: s2, dst: d2 }, ATok { src: s1, dst: d1 }]);
                }
            }
        }
    }
    let routes = [Route::Raw, Route::Builder, Route::Doc];
    Box::new(origs.into_iter().enumerate().flat_map(move |(oi, o)| {
        let adj_sets = adj_sets.clone();
        adj_sets.into_iter().enumerate().map(move |(ai, adj)| Case {
            orig: o.iter().enumerate().map(|(k, p)| OTok { pos: *p, payload: ((k + oi) % 5) as u8 + if k == 0 { 0 } else { 1 } }).collect(),
            adj,
            route: routes[(oi + ai) % 3],
        })
    }))
}

fn pos_strategy(lines: u32, cols: u32) -> BoxedStrategy<Pos> {
    (0..lines, 0..cols).boxed()
}

fn distinct_by<T, K: std::hash::Hash + Eq>(v: Vec<T>, key: impl Fn(&T) -> K) -> Vec<T> {
    let mut seen = std::collections::HashSet::new();
    v.into_iter().filter(|t| seen.insert(key(t))).collect()
}

fn random(t: Tier) -> BoxedStrategy<Case> {
    let (lines, cols) = t.pick((4, 12), (6, 20));
    (
        vec((pos_strategy(lines, cols), 0u8..12), 0..9),
        vec((pos_strategy(lines, cols), pos_strategy(lines + 2, cols + 6)), 0..7),
        prop_oneof![Just(Route::Raw), Just(Route::Builder), Just(Route::Doc)],
    )
        .prop_map(|(o, a, route)| Case {
            orig: distinct_by(o, |x| x.0).into_iter().map(|(pos, payload)| OTok { pos, payload }).collect(),
            adj: distinct_by(a, |x| x.0).into_iter().map(|(src, dst)| ATok { src, dst }).collect(),
            route,
        })
        .boxed()
}

/// Duplicated positions on either side (the K1 class): same generated position twice in the
/// original, same original position twice in the adjustment.
fn duplicates(t: Tier) -> BoxedStrategy<Case> {
    let (lines, cols) = t.pick((2, 6), (3, 8));
    (
        vec((pos_strategy(lines, cols), 0u8..12), 1..7),
        vec((pos_strategy(lines, cols), pos_strategy(lines + 1, cols + 3)), 1..5),
        prop_oneof![Just(Route::Raw), Just(Route::Builder), Just(Route::Doc)],
    )
        .prop_map(|(o, a, route)| Case {
            orig: o.into_iter().map(|(pos, payload)| OTok { pos, payload }).collect(),
            adj: a.into_iter().map(|(src, dst)| ATok { src, dst }).collect(),
            route,
        })
        .boxed()
}

/// Long originals (60..400 tokens, mostly one per line, lines skipped) against sparse
/// adjustments that resume far behind the previous stretch; and wide ones (columns up to
/// ~130000).
fn long_and_wide(_t: Tier) -> BoxedStrategy<Case> {
    (
        60usize..400,
        // adjustment tokens: original line = running sum of gaps (small, or around the powers of
        // two and their neighbours), so that a stretch resumes dozens of original stretches later
        vec(
            (
                prop_oneof![3 => 0u32..6, 3 => (4u32..9, -2i64..3).prop_map(|(k, d)| ((1i64 << k) + d) as u32), 1 => 0u32..200],
                0u32..4,
                0u32..500,
                0u32..140,
            ),
            1..7,
        )
        .prop_map(|v| {
            let mut line = 0u32;
            v.into_iter()
                .map(|(gap, sc, dl, dc)| {
                    line += gap;
                    (line, sc, dl, dc)
                })
                .collect::<Vec<_>>()
        }),
        proptest::sample::select(vec![1u32, 1, 3, 1000]),
        any::<bool>(),
        prop_oneof![Just(Route::Raw), Just(Route::Builder), Just(Route::Doc)],
    )
        .prop_map(|(n, adj, scale, skip_lines, route)| {
            let orig: Vec<OTok> = (0..n)
                .map(|i| {
                    let line = if skip_lines { (i as u32) + (i as u32 / 10) } else { i as u32 / 2 };
                    OTok { pos: (line, ((i as u32 * 7) % 130) * scale), payload: (i % 11) as u8 + 1 }
                })
                .collect();
            let orig = distinct_by(orig, |o| o.pos);
            let adj: Vec<ATok> = distinct_by(
                adj.into_iter().map(|(sl, sc, dl, dc)| ATok { src: (sl, sc * scale), dst: (dl, dc * scale) }).collect(),
                |a| a.src,
            );
            Case { orig, adj, route }
        })
        .boxed()
}

fn subs() -> Vec<Sub> {
    let ex = enum_sub("exhaustive_grid", exhaustive, check);
    let run = ex.run;
    vec![
        Sub {
            run: Box::new(move |ctx| {
                run(ctx);
                if !ctx.failed() {
                    ctx.note_exhaustive("2 lines x 4 columns: every original position set of size <= 3 x every adjustment token set of size <= 2 (distinct original positions, every (src,dst) pair, both insertion orders collapsed to reversed)");
                }
            }),
            ..ex
        },
        gen_sub("random", random, |t| t.pick(150_000, 1_000_000), check),
        gen_sub("long_and_wide", long_and_wide, |t| t.pick(6_000, 40_000), check),
        gen_sub("duplicates", duplicates, |t| t.pick(50_000, 300_000), check),
        gen_sub("chains", chains, |t| t.pick(120_000, 600_000), check_chain),
    ]
}

pub const DEF: PropertyDef = PropertyDef {
    id: "C10",
    rule: "pairs (original, adjustment): exhaustive on a 2x4 grid (original sets <= 3, adjustment sets <= 2 with every src/dst), random on \
           4x12 (thorough 6x20) grids with <= 8 + <= 6 tokens at distinct positions, a duplicates class (same position twice on either \
           side), and long_and_wide (60..400 original tokens over hundreds of lines, columns up to ~130000, 1..6 adjustment tokens), and chains: a pool of 3..5 maps composed with one another in 2..7 steps (a map used as an adjustment, adjusted itself, used again; read-only use in between), every step judged on the token lists read just before it. Oracle: brute-force interval composition from the statement (stretch = start .. min(next start, end of line)); result \
           compared as a multiset + sortedness + untouched sources/names/contents; payload (source, original position, name, range flag) \
           identified per token. Non-trivial = >= 2 + >= 2 tokens with an original stretch split by an adjustment boundary and an \
           adjustment stretch covering >= 2 originals",
    assumptions: &[
        "adjustment tokens all have a source (a sourceless token has no original coordinates)",
        "K1: with duplicated positions the crate emits extra tokens for zero-length stretches; tolerated only by that exact signature (nothing missing, every extra explained by an empty stretch touching the other side's stretch)",
        "small coordinates: i32 arithmetic inside adjust_mappings is not stressed (not part of the statement)",
    ],
    subs,
};
