#!/usr/bin/env python3
"""Writes /verif/seeded/RESULTS.md from the meta.json files."""
import glob, json, os

rows = []
for p in sorted(glob.glob("/verif/seeded/C*-*/meta.json")):
    m = json.load(open(p))
    name = os.path.basename(os.path.dirname(p))
    notes = ""
    np_ = os.path.join(os.path.dirname(p), "notes.md")
    if os.path.exists(np_):
        for line in open(np_):
            line = line.strip()
            if line and not line.startswith("#"):
                notes = line[:200]
                break
    rows.append((name, m, notes))

out = ["# Seeded defects (written by fresh sub-agents from the property text only)", "",
       "Each change was confirmed by `tools/seeded.py verify` in a scratch worktree (compiles, repository tests pass with it,",
       "its demonstration fails with and passes without it) and then applied to /repo (`git apply`), the quick tier of the",
       "checks was run, and the tree was restored (`git checkout -- .`).", "",
       "Round 1 = variants a, b; round 2 = variants c, d (asked to be hard to hit: sizes, boundaries, coincidences). For round 2 the",
       "column 'before' is the outcome with the harness as it was before the generator improvements of DESIGN.md §11.5.", "",
       "| seed | confirmed | caught by (quick tier) | before §11.5 | first failing sub-check / reason |", "|---|---|---|---|---|"]
caught = 0
for name, m, notes in rows:
    cb = m.get("caught_by", [])
    if cb:
        caught += 1
    reason = ""
    for c in cb[:1]:
        reason = m["checks"][c]["reason"].replace("|", "\\|")[:220]
    before = ""
    if "checks_before" in m:
        before = ", ".join(m.get("caught_by_before", [])) or "missed"
    out.append(f"| {name} | {'yes' if m.get('confirmed') else 'NO'} | {', '.join(cb) if cb else '**missed**' if 'checks' in m else 'not run'} | {before} | {reason} |")
out += ["", f"{caught} of {len(rows)} seeded changes are caught by the quick tier of at least one check.", ""]
open("/verif/seeded/RESULTS.md", "w").write("\n".join(out))
print(f"{caught}/{len(rows)} caught")
