//! C09 — rewriting a map never changes what any position resolves to.

use std::collections::{BTreeMap, BTreeSet};

use proptest::collection::vec;
use proptest::prelude::*;
use serde::{Deserialize, Serialize};
use sourcemap::SourceMap;

use super::common::{produce, rewrite_opts, small_mm, Producer};
use crate::engine::{gen_sub, guard, Obs, PropertyDef, Sub, Tier, Verdict};
use crate::model::*;
use crate::{ensure, ensure_eq};

#[derive(Clone, Debug, Hash, Serialize, Deserialize)]
pub enum PrefixChoice {
    /// a directory prefix of one of the map's source names, cut at a '/'
    Dir { src: u16, cut: u16, trailing: bool },
    Whole { src: u16 },
    NoMatch,
    Tilde,
    Literal(String),
    /// two prefixes: a directory prefix of a source name, then a directory prefix of what the
    /// first one leaves (only the first may be stripped)
    ThenRemainder { src: u16, cut: u16 },
}

#[derive(Clone, Debug, Hash, Serialize, Deserialize)]
pub struct Case {
    pub map: MAny,
    pub with_names: bool,
    pub with_contents: bool,
    pub prefixes: Vec<PrefixChoice>,
    /// operations applied to the built (regular) map before the rewrite under test: the map being
    /// rewritten is then itself the result of a rewrite / adjust_mappings / round trip
    #[serde(default)]
    pub pre: Vec<Producer>,
}

fn resolve_prefixes(sources: &[String], choices: &[PrefixChoice]) -> Vec<String> {
    let mut out = vec![];
    for c in choices {
        if let PrefixChoice::ThenRemainder { src, cut } = c {
            if sources.is_empty() {
                continue;
            }
            let s = &sources[idx16(*src, sources.len())];
            let cuts: Vec<usize> = s.match_indices('/').map(|(i, _)| i).collect();
            if cuts.len() < 2 {
                continue;
            }
            let k = idx16(*cut, cuts.len() - 1);
            let (a, b) = (cuts[k], cuts[k + 1]);
            if a == 0 {
                // "/x/y": first prefix "" is not useful; use the first two components
                continue;
            }
            out.push(s[..a].to_string());
            out.push(s[a + 1..b].to_string());
            continue;
        }
        out.push(resolve_one(sources, c));
    }
    out
}

fn resolve_one(sources: &[String], c: &PrefixChoice) -> String {
    [c]
        .iter()
        .map(|c| match c {
            PrefixChoice::Dir { src, cut, trailing } => {
                if sources.is_empty() {
                    return "nomatch".to_string();
                }
                let s = &sources[idx16(*src, sources.len())];
                let cuts: Vec<usize> = s.match_indices('/').map(|(i, _)| i).collect();
                if cuts.is_empty() {
                    return "nomatch-dir".to_string();
                }
                let at = cuts[idx16(*cut, cuts.len())];
                if *trailing {
                    s[..=at].to_string()
                } else {
                    s[..at].to_string()
                }
            }
            PrefixChoice::Whole { src } => {
                if sources.is_empty() {
                    "nomatch".to_string()
                } else {
                    sources[idx16(*src, sources.len())].clone()
                }
            }
            PrefixChoice::NoMatch => "no/such/prefix".to_string(),
            PrefixChoice::Tilde => "~".to_string(),
            PrefixChoice::Literal(s) => s.clone(),
            PrefixChoice::ThenRemainder { .. } => unreachable!(),
        })
        .next()
        .unwrap()
}

/// Result of stripping by the *explicit* prefixes: `Some(new)` if one matched.
fn strip_explicit(name: &str, prefixes: &[String]) -> Option<String> {
    for p in prefixes {
        if p == "~" {
            continue;
        }
        let mut p = p.clone();
        if !p.ends_with('/') {
            p.push('/');
        }
        if let Some(rest) = name.strip_prefix(p.as_str()) {
            return Some(rest.to_string());
        }
    }
    None
}

#[derive(Clone, Debug, PartialEq, Eq, PartialOrd, Ord)]
struct Row {
    dl: u32,
    dc: u32,
    src: Option<(String, u32, u32, Option<String>)>,
    range: bool,
    content: Option<String>,
    scope: Option<String>,
}

fn rows(sm: &SourceMap, scope: impl Fn(sourcemap::Token<'_>) -> Option<String>) -> Vec<Row> {
    sm.tokens().map(|t| row_of(sm, t, &scope)).collect()
}

fn row_of(sm: &SourceMap, t: sourcemap::Token<'_>, scope: &impl Fn(sourcemap::Token<'_>) -> Option<String>) -> Row {
    Row {
            dl: t.get_dst_line(),
            dc: t.get_dst_col(),
            src: if t.has_source() {
                Some((
                    t.get_source().unwrap_or("<unresolved>").to_string(),
                    t.get_src_line(),
                    t.get_src_col(),
                    t.get_name().map(str::to_string),
                ))
            } else {
                None
            },
            range: t.is_range(),
            content: if t.has_source() { sm.get_source_contents(t.get_src_id()).map(str::to_string) } else { None },
            scope: scope(t),
    }
}

fn check(c: &Case, obs: &mut Obs) -> Verdict {
    let built = match c.map.build() {
        Ok(m) => m,
        Err(e) => return Verdict::Fail(format!("building the model failed: {e}")),
    };
    let built = if c.pre.is_empty() {
        built
    } else {
        let mut m = built;
        for p in &c.pre {
            m = match produce(m, p) {
                Ok(m) => m,
                Err(e) => return Verdict::Fail(format!("preparing the map ({p:?}): {e}")),
            };
        }
        obs.class("rewrite-of-a-map-that-was-itself-produced(rewrite/adjust/round-trip)");
        m
    };
    let (before_sm, hermes): (SourceMap, Option<sourcemap::SourceMapHermes>) = match &built {
        sourcemap::DecodedMap::Regular(sm) => (sm.clone(), None),
        sourcemap::DecodedMap::Hermes(h) => ((**h).clone(), Some(h.clone())),
        sourcemap::DecodedMap::Index(_) => return Verdict::Fail("index maps are not rewritten".into()),
    };
    let before = match &hermes {
        Some(h) => rows(&before_sm, |t| h.get_scope_for_token(t).map(str::to_string)),
        None => rows(&before_sm, |_| None),
    };
    // "The default behavior is to just deduplicate the sourcemap" (doc of rewrite): the default options
    // keep names and contents, strip nothing and read no files
    {
        let d = sourcemap::RewriteOptions::default();
        ensure!(
            d.with_names && d.with_source_contents && d.strip_prefixes.is_empty() && !d.load_local_source_contents && d.base_path.is_none(),
            "RewriteOptions::default() is not 'keep names and contents, strip nothing, load nothing'"
        );
    }
    let old_sources: Vec<String> = before_sm.sources().map(str::to_string).collect();
    let prefixes = resolve_prefixes(&old_sources, &c.prefixes);
    let pf: Vec<&str> = prefixes.iter().map(|s| s.as_str()).collect();
    let opts = rewrite_opts(c.with_names, c.with_contents, &pf);
    let mut after_hermes: Option<sourcemap::SourceMapHermes> = None;
    let (after_sm, after): (SourceMap, Vec<Row>) = match hermes.clone() {
        None => match guard(|| before_sm.clone().rewrite(&opts)) {
            Ok(Ok(m)) => {
                let r = rows(&m, |_| None);
                (m, r)
            }
            Ok(Err(e)) => return Verdict::Fail(format!("rewrite failed: {e}")),
            Err(p) => return Verdict::Fail(format!("rewrite: {p}")),
        },
        Some(h) => match guard(|| h.rewrite(&opts)) {
            Ok(Ok(m)) => {
                let r = rows(&m, |t| m.get_scope_for_token(t).map(str::to_string));
                after_hermes = Some(m.clone());
                ((*m).clone(), r)
            }
            Ok(Err(e)) => return Verdict::Fail(format!("hermes rewrite failed: {e}")),
            Err(p) => return Verdict::Fail(format!("hermes rewrite: {p}")),
        },
    };
    ensure_eq!(after.len(), before.len(), "token count changed by rewrite");
    ensure!(after.windows(2).all(|w| (w[0].dl, w[0].dc) <= (w[1].dl, w[1].dc)), "rewritten tokens are not ordered");

    // expected rows
    let tilde = prefixes.iter().any(|p| p == "~");
    // "If an item in the list is set to `~` then the common prefix of all sources is stripped" (doc of
    // RewriteOptions::strip_prefixes). Where that sentence is unambiguous - no source root, every listed
    // source an absolute '/'-path without backslashes - the common prefix is computed here, component by
    // component, and the stripped names are expected exactly. Elsewhere only the shape is checked.
    let tilde_exact: Option<Option<String>> = {
        let root_empty = before_sm.get_source_root().map(|r| r.is_empty()).unwrap_or(true);
        let all_abs = !old_sources.is_empty() && old_sources.iter().all(|s| s.starts_with('/') && !s.contains('\\'));
        if tilde && root_empty && all_abs {
            // components keep their leading separator: "/a/b" -> "", "/a", "/b"
            let split = |p: &str| -> Vec<String> {
                let mut out = vec![];
                let mut last = 0;
                for (i, _) in p.match_indices('/') {
                    out.push(p[last..i].to_string());
                    last = i;
                }
                if last < p.len() {
                    out.push(p[last..].to_string());
                }
                out
            };
            let comps: Vec<Vec<String>> = old_sources.iter().map(|s| split(s)).collect();
            let mut n = comps.iter().map(|c| c.len()).min().unwrap_or(0);
            for c in &comps {
                n = n.min(c.iter().zip(&comps[0]).take_while(|(a, b)| a == b).count());
            }
            let p = comps[0][..n].concat();
            Some(if p.is_empty() || p == "/" { None } else { Some(p) })
        } else {
            None
        }
    };
    // first non-absent content per old (joined) source name, in token order
    let mut first_content: BTreeMap<String, Option<String>> = BTreeMap::new();
    for r in &before {
        if let Some(s) = &r.src {
            let e = first_content.entry(s.0.clone()).or_insert(None);
            if e.is_none() {
                *e = r.content.clone();
            }
        }
    }
    // tokens may be reordered inside a group of equal positions: compare canonically, with the
    // source name left out first (its expectation is a relation, checked on the pairing below)
    let key = |r: &Row| (r.dl, r.dc, r.src.as_ref().map(|s| (s.1, s.2)), r.range);
    let mut b_sorted = before.clone();
    let mut a_sorted = after.clone();
    b_sorted.sort();
    a_sorted.sort_by(|x, y| key(x).cmp(&key(y)).then_with(|| x.cmp(y)));
    // pair rows: for every before-row find a matching after-row (greedy inside equal keys)
    let mut used = vec![false; a_sorted.len()];
    let mut removed_by_tilde: BTreeSet<String> = BTreeSet::new();
    let mut stripped_something = false;
    let corresponds = |b: &Row, a: &Row| -> bool {
        match (&b.src, &a.src) {
                (None, None) => true,
                (Some(bs), Some(as_)) => {
                    let name_ok = if c.with_names { as_.3 == bs.3 } else { as_.3.is_none() };
                    let src_ok = match strip_explicit(&bs.0, &prefixes) {
                        Some(want) => as_.0 == want,
                        None if tilde_exact.is_some() => {
                            let want = match tilde_exact.as_ref().unwrap() {
                                // (a prefix is given a trailing '/' unless it has one - as for explicit prefixes)
                                Some(p) => bs.0.strip_prefix(&if p.ends_with('/') { p.clone() } else { format!("{p}/") }).unwrap_or(&bs.0).to_string(),
                                None => bs.0.clone(),
                            };
                            as_.0 == want
                        }
                        None if tilde => {
                            as_.0 == bs.0
                                || (bs.0.ends_with(as_.0.as_str())
                                    && bs.0[..bs.0.len() - as_.0.len()].ends_with('/'))
                        }
                        None => as_.0 == bs.0,
                    };
                    let content_ok = if c.with_contents {
                        a.content == first_content[&bs.0]
                    } else {
                        a.content.is_none()
                    };
                    name_ok && src_ok && content_ok && a.scope == b.scope
                }
                _ => false,
        }
    };
    for b in &b_sorted {
        let mut found = false;
        for (i, a) in a_sorted.iter().enumerate() {
            if used[i] || key(a) != key(b) {
                continue;
            }
            let ok = corresponds(b, a);
            if ok {
                used[i] = true;
                found = true;
                if let (Some(bs), Some(as_)) = (&b.src, &a.src) {
                    if as_.0 != bs.0 {
                        stripped_something = true;
                        if strip_explicit(&bs.0, &prefixes).is_none() {
                            removed_by_tilde.insert(bs.0[..bs.0.len() - as_.0.len()].to_string());
                        }
                    }
                }
                break;
            }
        }
        if !found {
            let candidates: Vec<&Row> = a_sorted.iter().filter(|a| key(a) == key(b)).collect();
            return Verdict::Fail(format!(
                "no rewritten token corresponds to {b:?} (names kept={}, contents kept={}, prefixes={prefixes:?}); rewritten tokens at that position: {candidates:?}",
                c.with_names, c.with_contents
            ));
        }
    }
    ensure!(removed_by_tilde.len() <= 1, "'~' removed different prefixes from different sources: {removed_by_tilde:?}");

    // "never changes what any position resolves to": a lookup at every token position (and just
    // right of it) lands, before and after, on tokens that correspond to each other — also where
    // several tokens share the position
    let mut seen: BTreeSet<(u32, u32)> = BTreeSet::new();
    for r in &before {
        if !seen.insert((r.dl, r.dc)) {
            continue;
        }
        for q in [(r.dl, r.dc), (r.dl, r.dc.saturating_add(1))] {
            let (lb, la) = match guard(|| (before_sm.lookup_token(q.0, q.1).map(|t| t.get_raw_token()), after_sm.lookup_token(q.0, q.1).map(|t| t.get_raw_token()))) {
                Ok(x) => x,
                Err(p) => return Verdict::Fail(format!("lookup_token{q:?}: {p}")),
            };
            // rows of the tokens the lookups landed on (first token with that raw value in iteration order)
            let find = |sm: &SourceMap, raw: Option<sourcemap::RawToken>, rows: &[Row]| -> Option<Row> {
                let raw = raw?;
                sm.tokens().position(|t| t.get_raw_token() == raw).map(|i| rows[i].clone())
            };
            let rb = find(&before_sm, lb, &before);
            let ra = find(&after_sm, la, &after);
            match (&rb, &ra) {
                (Some(b), Some(a)) => {
                    ensure!(
                        key(a) == key(b) && corresponds(b, a),
                        "lookup_token{q:?} resolves to {b:?} before and to {a:?} after the rewrite (names kept={}, contents kept={}, prefixes={prefixes:?})",
                        c.with_names, c.with_contents
                    );
                    let ties = before.iter().filter(|x| (x.dl, x.dc) == (b.dl, b.dc)).count();
                    obs.class_if(ties > 1, "lookup-on-a-position-shared-by-several-tokens");
                }
                _ => return Verdict::Fail(format!("lookup_token{q:?}: before {rb:?}, after {ra:?}")),
            }
        }
    }
    let _ = &after_hermes;

    // lists: nothing unreferenced, no duplicates other than names made equal by stripping
    let new_sources: Vec<String> = after_sm.sources().map(str::to_string).collect();
    let new_names: Vec<String> = after_sm.names().map(str::to_string).collect();
    let ref_src: BTreeSet<u32> = after_sm.tokens().filter(|t| t.has_source()).map(|t| t.get_src_id()).collect();
    let ref_names: BTreeSet<u32> = after_sm.tokens().filter(|t| t.get_name_id() != !0).map(|t| t.get_name_id()).collect();
    ensure_eq!(ref_src.len(), new_sources.len(), "rewritten sources {new_sources:?} contain unreferenced entries (referenced ids {ref_src:?})");
    ensure_eq!(ref_names.len(), new_names.len(), "rewritten names {new_names:?} contain unreferenced entries");
    if !c.with_names {
        ensure!(new_names.is_empty(), "names dropped but names() = {new_names:?}");
    }
    let distinct_old: BTreeSet<&String> = before.iter().filter_map(|r| r.src.as_ref().map(|s| &s.0)).collect();
    ensure_eq!(new_sources.len(), distinct_old.len(), "one rewritten source per distinct referenced source name expected; got {new_sources:?} for {distinct_old:?}");
    let nn: BTreeSet<&String> = new_names.iter().collect();
    ensure_eq!(nn.len(), new_names.len(), "duplicate names after rewrite: {new_names:?}");
    if !c.with_contents {
        ensure!(after_sm.source_contents().all(|c| c.is_none()), "contents dropped but some remain");
    }
    ensure_eq!(after_sm.get_file().map(str::to_string), before_sm.get_file().map(str::to_string), "file");
    ensure_eq!(after_sm.get_debug_id(), before_sm.get_debug_id(), "debug id");

    // classes
    let mm = match &c.map {
        MAny::Regular(m) => m,
        MAny::Hermes(h) => &h.map,
        MAny::Index(_) => unreachable!(),
    };
    let referenced: BTreeSet<u32> = mm.tokens.iter().filter_map(|t| t.src.as_ref().map(|s| s.id)).collect();
    let unreferenced = referenced.len() < mm.sources.len();
    let dup_sources = mm.sources.iter().collect::<BTreeSet<_>>().len() < mm.sources.len();
    let mut sorted: Vec<&MTok> = mm.tokens.iter().collect();
    sorted.sort_by_key(|t| (t.dl, t.dc));
    let mut first_use: Vec<u32> = vec![];
    for t in sorted {
        if let Some(s) = &t.src {
            if !first_use.contains(&s.id) {
                first_use.push(s.id);
            }
        }
    }
    let out_of_order = first_use.windows(2).any(|w| w[0] > w[1]);
    obs.class_if(unreferenced, "unreferenced-source");
    obs.class_if(dup_sources, "duplicate-source-strings");
    obs.class_if(out_of_order, "sources-not-in-first-use-order");
    obs.class_if(stripped_something, "a-prefix-stripped-something");
    obs.class_if(tilde, "tilde");
    obs.class_if(tilde_exact.is_some(), "tilde:common-prefix-of-all-absolute-sources-expected-exactly");
    obs.class_if(matches!(tilde_exact, Some(Some(_))), "tilde:non-trivial-common-prefix");
    obs.class_if(!removed_by_tilde.is_empty(), "tilde-stripped-something");
    obs.class_if(mm.root.as_deref().map(|r| !r.is_empty()).unwrap_or(false), "root-present");
    obs.class_if(matches!(c.map, MAny::Hermes(_)), "hermes");
    obs.class_if(mm.has_ranges(), "range-tokens");
    obs.class(match (c.with_names, c.with_contents) {
        (true, true) => "opts:names+contents",
        (true, false) => "opts:names",
        (false, true) => "opts:contents",
        (false, false) => "opts:neither",
    });
    if (unreferenced || dup_sources) && out_of_order && stripped_something {
        obs.nontrivial();
    }
    Verdict::Pass
}

fn prefix_choices() -> BoxedStrategy<Vec<PrefixChoice>> {
    vec(
        prop_oneof![
            5 => (any::<u16>(), any::<u16>(), any::<bool>()).prop_map(|(src, cut, trailing)| PrefixChoice::Dir { src, cut, trailing }),
            1 => any::<u16>().prop_map(|src| PrefixChoice::Whole { src }),
            1 => Just(PrefixChoice::NoMatch),
            2 => Just(PrefixChoice::Tilde),
            2 => (any::<u16>(), any::<u16>()).prop_map(|(src, cut)| PrefixChoice::ThenRemainder { src, cut }),
            1 => proptest::sample::select(vec!["", "/", "r", "/abs", "webpack://", "http:/"]).prop_map(|s| PrefixChoice::Literal(s.to_string())),
        ],
        0..4,
    )
    .boxed()
}

fn params(t: Tier) -> MMParams {
    MMParams {
        max_tokens: t.pick(30, 80),
        ranges: true,
        max_sources: 6,
        max_names: 5,
        big_lines: true,
        distinct_strings: false,
        edge_values: true,
    }
}

const ABS_FAMILY: &[&str] = &[
    "/srv/app/a.js", "/srv/app/lib/b.js", "/srv/app/lib/util/c.js", "/srv/app/d.js", "/srv/app/lib", "/srv/app/lib/b.js", "/srv/app/ü.js",
    "/srv/app2/e.js", "/srv/app", "/srv/app/lib/", "/srv//app/f.js",
];

fn regular(t: Tier) -> BoxedStrategy<Case> {
    (mm_strategy(params(t)), any::<bool>(), any::<bool>(), prefix_choices(), prop_oneof![3 => Just(0u8), 2 => 1u8..=255])
        .prop_map(|(mut m, with_names, with_contents, mut prefixes, abs)| {
            if abs != 0 {
                // every source an absolute path below /srv (the '~' shorthand strips "the common prefix
                // of all sources"): names from one family, which of them depends on the generated byte
                let span = match abs % 4 {
                    0 => 7,  // all below /srv/app
                    1 => 8,  // one below /srv/app2: the common prefix is /srv
                    2 => 9,  // a source that *is* a directory of the others
                    _ => ABS_FAMILY.len(),
                };
                for (i, s) in m.sources.iter_mut().enumerate() {
                    *s = ABS_FAMILY[(i * 3 + abs as usize) % span].to_string();
                }
                m.root = None;
                if !prefixes.iter().any(|p| matches!(p, PrefixChoice::Tilde)) {
                    prefixes.push(PrefixChoice::Tilde);
                }
            }
            Case { map: MAny::Regular(m), with_names, with_contents, prefixes, pre: vec![] }
        })
        .boxed()
}

/// The same cases, but the map that gets rewritten went through other operations first.
fn produced(t: Tier) -> BoxedStrategy<Case> {
    let default_rewrite = || Producer::Rewrite { names: true, contents: true, prefixes: vec![] };
    let pre = prop_oneof![
        2 => small_mm(6).prop_map(move |a| vec![default_rewrite(), Producer::Adjust(Box::new(a))]),
        1 => Just(vec![default_rewrite()]),
        1 => small_mm(6).prop_map(|a| vec![Producer::Adjust(Box::new(a))]),
        1 => Just(vec![Producer::RoundTrip, default_rewrite()]),
        1 => (any::<bool>(), any::<bool>()).prop_map(|(names, contents)| vec![Producer::Rewrite { names, contents, prefixes: vec![] }]),
    ];
    let p = MMParams { max_tokens: 12, edge_values: false, big_lines: false, ..params(t) };
    (mm_strategy(p), any::<bool>(), any::<bool>(), prefix_choices(), pre)
        .prop_map(|(m, with_names, with_contents, prefixes, pre)| Case { map: MAny::Regular(m), with_names, with_contents, prefixes, pre })
        .boxed()
}

fn hermes(t: Tier) -> BoxedStrategy<Case> {
    let p = MMParams { distinct_strings: true, edge_values: false, ..params(t) };
    (mm_strategy(p), vec(proptest::option::weighted(0.8, vec(fbmap_strategy(), 1..3)), 6), any::<bool>(), any::<bool>(), prefix_choices())
        .prop_map(|(mut map, mut fb, with_names, with_contents, prefixes)| {
            map.route = Route::Doc;
            // one function map per distinct *joined* source name: make the joined names distinct
            // by dropping the root when it would merge names (absolute names are not prefixed)
            let joined: BTreeSet<String> = map.sources.iter().map(|s| crate::refimpl::v3::join_source(map.root.as_deref(), s)).collect();
            if joined.len() != map.sources.len() {
                map.root = None;
            }
            fb.truncate(map.sources.len());
            while fb.len() < map.sources.len() {
                fb.push(None);
            }
            Case { map: MAny::Hermes(MHermes { map, fb }), with_names, with_contents, prefixes, pre: vec![] }
        })
        .boxed()
}

/// Maps with about a thousand sources (and as many names), every one referenced, listed in an
/// order different from first use.
fn many_sources(_t: Tier) -> BoxedStrategy<Case> {
    (
        proptest::sample::select(vec![255usize, 256, 257, 1023, 1024, 1025, 1026, 1500, 2049]),
        any::<u16>(),
        any::<bool>(),
        any::<bool>(),
        prefix_choices(),
        any::<bool>(),
    )
        .prop_map(|(n, stride, with_names, with_contents, prefixes, hermes)| {
            // a permutation of 0..n by a stride coprime to n
            let mut st = (stride as usize % n).max(1);
            while gcd(st, n) != 1 {
                st += 1;
            }
            let sources: Vec<String> = (0..n).map(|k| format!("/proj/dir{}/s{k}.js", k % 7)).collect();
            let names: Vec<String> = (0..n).map(|k| format!("n{k}")).collect();
            let tokens: Vec<MTok> = (0..n)
                .map(|i| {
                    let id = ((i * st) % n) as u32;
                    MTok {
                        dl: (i / 50) as u32,
                        dc: (i % 50) as u32 * 3,
                        src: Some(crate::refimpl::v3::RefSrc { id, line: id, col: id % 11, name: Some((n as u32 - 1) - id) }),
                        range: false,
                        junk: (0, 0),
                    }
                })
                .collect();
            let contents: Vec<Option<String>> = (0..n).map(|k| if k % 3 == 0 { Some(format!("content {k}")) } else { None }).collect();
            let map = MM {
                file: Some("big.js".into()),
                root: None,
                sources,
                contents,
                names,
                tokens,
                ignore: vec![],
                debug_id: None,
                route: if hermes { Route::Doc } else { Route::Raw },
                json: JsonStyle::default(),
            };
            let any = if hermes {
                let fb = (0..n)
                    .map(|k| Some(vec![FbMap { names: vec![format!("fn{k}")], mappings: "AAA".into() }]))
                    .collect();
                MAny::Hermes(MHermes { map, fb })
            } else {
                MAny::Regular(map)
            };
            Case { map: any, with_names, with_contents, prefixes, pre: vec![] }
        })
        .boxed()
}

fn gcd(a: usize, b: usize) -> usize {
    if b == 0 {
        a
    } else {
        gcd(b, a % b)
    }
}

fn subs() -> Vec<Sub> {
    vec![
        gen_sub("many_sources", many_sources, |t| t.pick(120, 600), check),
        gen_sub("produced_then_rewritten", produced, |t| t.pick(30_000, 300_000), check),
        gen_sub("regular", regular, |t| t.pick(100_000, 600_000), check),
        gen_sub("hermes", hermes, |t| t.pick(30_000, 200_000), check),
    ]
}

pub const DEF: PropertyDef = PropertyDef {
    id: "C09",
    rule: "many_sources: 255..2049 sources and names, every one referenced, in permuted order (regular and Hermes). model maps (duplicate/unreferenced sources and names, roots, partial contents, sources not in first-use order, range tokens, all \
           routes) x names on/off x contents on/off x 0..3 prefixes derived from the map's own source names (directory prefixes with and \
           without trailing '/', a whole name, a non-matching prefix, literals, '~', a prefix followed by a prefix of its remainder); Hermes maps with one function map per distinct source \
           name. Oracle: every token keeps position, original position, range flag, name (or none), source name minus the first matching \
           normalised prefix ('~': unchanged or cut at a '/' boundary, one common prefix for all), attached content = first non-absent \
           content of that source name in token order (none when dropped), Hermes scope unchanged; lists hold nothing unreferenced, no \
           duplicates; file and debug id kept. lookup_token at every token position (+1 column) lands on corresponding tokens before and after; the ~ shorthand is expected exactly when every source is an absolute /-path and there is no root; produced_then_rewritten: the rewritten map is itself the result of rewrite / adjust_mappings / round trip; documented defaults of RewriteOptions. Non-trivial = an unreferenced or duplicate source, sources not in first-use order, and a \
           prefix that strips something",
    assumptions: &[
        "the exact common prefix chosen for '~' is the crate's heuristic and is not re-derived",
        "load_local_source_contents stays off (in-memory options only)",
        "Hermes maps have one function-map entry per source and pairwise distinct source names (otherwise 'the function map of the source' is ambiguous)",
    ],
    subs,
};
