//! C03 — encoder output is valid v3 that any conforming reader decodes identically.

use proptest::prelude::*;
use serde::{Deserialize, Serialize};
use serde_json::Value;

use super::common::*;
use crate::engine::{gen_sub, Obs, PropertyDef, Sub, Tier, Verdict};
use crate::model::*;

#[derive(Clone, Debug, Hash, Serialize, Deserialize)]
pub struct Case {
    pub base: MAny,
    pub producer: Producer,
}

pub fn case_strategy(tier: Tier) -> BoxedStrategy<Case> {
    let p = MMParams::regular(tier);
    let small = MMParams {
        max_tokens: 24,
        edge_values: false,
        big_lines: false,
        ..p
    };
    prop_oneof![
        // regular maps; adjust/flatten want small coordinates
        4 => (mm_strategy(p), prop_oneof![
                3 => Just(Producer::Direct),
                1 => Just(Producer::RoundTrip),
                2 => (any::<bool>(), any::<bool>(), prefixes_strategy())
                    .prop_map(|(names, contents, prefixes)| Producer::Rewrite { names, contents, prefixes }),
             ]).prop_map(|(m, producer)| Case { base: MAny::Regular(m), producer }),
        4 => (mm_strategy(small), producer_for_regular(tier))
            .prop_map(|(m, producer)| Case { base: MAny::Regular(m), producer }),
        2 => (hermes_strategy(small), prop_oneof![
                2 => Just(Producer::Direct),
                1 => Just(Producer::RoundTrip),
                2 => (any::<bool>(), any::<bool>(), prefixes_strategy())
                    .prop_map(|(names, contents, prefixes)| Producer::Rewrite { names, contents, prefixes }),
             ]).prop_map(|(h, producer)| Case { base: MAny::Hermes(h), producer }),
        3 => (index_strategy(small, 2), prop_oneof![
                2 => Just(Producer::Direct),
                1 => Just(Producer::RoundTrip),
                2 => Just(Producer::Flatten),
             ]).prop_map(|(i, producer)| Case { base: MAny::Index(i), producer }),
    ]
    .boxed()
}

fn classify(c: &Case, obs: &mut Obs) {
    obs.class(match &c.base {
        MAny::Regular(_) => "kind:regular",
        MAny::Hermes(_) => "kind:hermes",
        MAny::Index(_) => "kind:index",
    });
    obs.class(match &c.producer {
        Producer::Direct => "via:direct",
        Producer::Rewrite { .. } => "via:rewrite",
        Producer::WrapFlatten { .. } => "via:wrap+flatten",
        Producer::Flatten => "via:flatten",
        Producer::Adjust(_) => "via:adjust_mappings",
        Producer::RoundTrip => "via:roundtrip",
    });
    if let MAny::Regular(m) = &c.base {
        obs.class(match m.effective_route() {
            Route::Builder => "route:builder",
            Route::Raw => "route:raw",
            Route::Doc => "route:decoded",
        });
    }
}

pub fn nontrivial_map(m: &MM) -> bool {
    let lines: std::collections::HashSet<u32> = m.tokens.iter().map(|t| t.dl).collect();
    let mut pos: Vec<(u32, u32)> = m.tokens.iter().map(|t| (t.dl, t.dc)).collect();
    pos.sort();
    let dup = pos.windows(2).any(|w| w[0] == w[1]);
    let sourceless = m.tokens.iter().any(|t| t.src.is_none());
    let skipped = lines.iter().max().map(|mx| (*mx as usize + 1) > lines.len()).unwrap_or(false);
    let special = m
        .sources
        .iter()
        .chain(m.names.iter())
        .any(|s| !s.is_ascii() || s.contains(['"', '\\', '\n', '\u{0}']));
    m.tokens.len() >= 3
        && lines.len() >= 2
        && (dup
            || sourceless
            || skipped
            || special
            || m.contents.iter().any(|c| c.is_some())
            || !m.ignore.is_empty()
            || m.debug_id.is_some()
            || m.root.is_some())
}

pub fn nontrivial_any(a: &MAny) -> bool {
    match a {
        MAny::Regular(m) => nontrivial_map(m),
        MAny::Hermes(h) => nontrivial_map(&h.map) && h.fb.iter().any(|f| f.as_ref().map(|v| !v.is_empty()).unwrap_or(false)),
        MAny::Index(i) => i.sections.iter().any(|s| s.map.as_ref().map(nontrivial_any).unwrap_or(false)) && i.sections.len() >= 2,
    }
}

fn check(c: &Case, obs: &mut Obs) -> Verdict {
    classify(c, obs);
    let base = match c.base.build() {
        Ok(m) => m,
        Err(e) => return Verdict::Fail(format!("building the model failed: {e}")),
    };
    let m = match produce(base, &c.producer) {
        Ok(m) => m,
        Err(e) if e.starts_with("n/a:") => {
            obs.class("producer-not-applicable");
            return Verdict::Pass;
        }
        Err(e) => return Verdict::Fail(e),
    };
    let bytes = match ser(&m) {
        Ok(b) => b,
        Err(e) => return Verdict::Fail(e),
    };
    let v: Value = match serde_json::from_slice(&bytes) {
        Ok(v) => v,
        Err(e) => return Verdict::Fail(format!("serialised form is not JSON: {e}")),
    };
    if let Err(e) = check_serialized_any(&m, &v, false) {
        return Verdict::Fail(format!("{e}; output={}", String::from_utf8_lossy(&bytes)));
    }
    if nontrivial_any(&c.base) {
        obs.nontrivial();
    }
    Verdict::Pass
}

fn large(t: Tier) -> BoxedStrategy<Case> {
    let p = MMParams { max_tokens: t.pick(1200, 5000), ..MMParams::regular(t) };
    (mm_strategy(p), prop_oneof![2 => Just(Producer::Direct), 1 => Just(Producer::RoundTrip), 1 => Just(Producer::Rewrite { names: true, contents: true, prefixes: vec![] })])
        .prop_map(|(m, producer)| Case { base: MAny::Regular(m), producer })
        .boxed()
}

fn deep(t: Tier) -> BoxedStrategy<Case> {
    let p = MMParams { max_tokens: 8, big_lines: false, ..MMParams::regular(t) };
    (deep_index_strategy(p, 30), prop_oneof![Just(Producer::Direct), Just(Producer::RoundTrip), Just(Producer::Flatten)])
        .prop_map(|(i, producer)| Case { base: MAny::Index(i), producer })
        .boxed()
}

/// many tokens on very few positions, string tables with repeated entries
fn crowded(t: Tier) -> BoxedStrategy<Case> {
    let p = MMParams { max_tokens: t.pick(40, 120), ..MMParams::regular(t) };
    (mm_strategy(p), 1u32..3, 1u32..4, prop_oneof![2 => Just(Producer::Direct), 1 => Just(Producer::RoundTrip)])
        .prop_map(|(mut m, ml, mc, producer)| {
            for tok in &mut m.tokens {
                tok.dl %= ml;
                tok.dc %= mc;
                if let Some(s) = &mut tok.src {
                    s.line %= 2;
                    s.col %= 2;
                }
            }
            for i in 1..m.sources.len() {
                if i % 2 == 1 {
                    m.sources[i] = m.sources[0].clone();
                }
            }
            for i in 1..m.names.len() {
                if i % 2 == 0 {
                    m.names[i] = m.names[0].clone();
                }
            }
            Case { base: MAny::Regular(m), producer }
        })
        .boxed()
}

// --- results of composed operations --------------------------------------------------------------

#[derive(Clone, Debug, Hash, Serialize, Deserialize)]
pub struct CCase {
    pub base: MM,
    pub producers: Vec<Producer>,
}

pub fn composed(t: Tier) -> BoxedStrategy<CCase> {
    (small_mm(16), proptest::collection::vec(producer_for_regular(t), 2..5)).prop_map(|(base, producers)| CCase { base, producers }).boxed()
}

/// The map under test is the result of 2..4 operations applied one after the other (rewrite of a
/// flattened map, adjust of a rewritten one, ...). Returns it, or `Ok(None)` when a producer does not apply.
pub fn build_composed(c: &CCase, obs: &mut Obs) -> Result<Option<sourcemap::DecodedMap>, String> {
    let mut m = sourcemap::DecodedMap::Regular(c.base.build().map_err(|e| format!("building the model failed: {e}"))?);
    for (k, p) in c.producers.iter().enumerate() {
        obs.class(match p {
            Producer::Direct => "step:none",
            Producer::Rewrite { .. } => "step:rewrite",
            Producer::WrapFlatten { .. } => "step:wrap+flatten",
            Producer::Flatten => "step:flatten",
            Producer::Adjust(_) => "step:adjust_mappings",
            Producer::RoundTrip => "step:roundtrip",
        });
        m = match produce(m, p) {
            Ok(m) => m,
            Err(e) if e.starts_with("n/a:") => return Ok(None),
            Err(e) => return Err(format!("step {k} {p:?}: {e}")),
        };
    }
    Ok(Some(m))
}

fn check_composed(c: &CCase, obs: &mut Obs) -> Verdict {
    let m = match build_composed(c, obs) {
        Ok(Some(m)) => m,
        Ok(None) => return Verdict::Pass,
        Err(e) => return Verdict::Fail(e),
    };
    let bytes = match ser(&m) {
        Ok(b) => b,
        Err(e) => return Verdict::Fail(e),
    };
    let v: Value = match serde_json::from_slice(&bytes) {
        Ok(v) => v,
        Err(e) => return Verdict::Fail(format!("serialised form is not JSON: {e}")),
    };
    if let Err(e) = check_serialized_any(&m, &v, false) {
        return Verdict::Fail(format!("after {:?}: {e}; output={}", c.producers, String::from_utf8_lossy(&bytes)));
    }
    let real = c.producers.iter().filter(|p| !matches!(p, Producer::Direct)).count();
    if real >= 2 && c.base.tokens.len() >= 3 {
        obs.nontrivial();
    }
    Verdict::Pass
}

// --- one living object: every mutator / read-only use, then serialise the *same* object again ---

#[derive(Clone, Debug, Hash, Serialize, Deserialize)]
pub enum HOp {
    /// nothing but the serialisation that follows every op (serialising twice in a row)
    Again,
    Adjust(Box<MM>),
    SetRoot(Option<String>),
    SetSource(u16, String),
    SetContents(u16, Option<String>),
    SetFile(Option<String>),
    SetDebugId(Option<String>),
    Ignore(u16),
    /// read-only use between two serialisations (lookups, iteration, data URL)
    Read(u32, u32),
    /// continue with a clone of the object
    CloneSelf,
    /// serialise into a writer that fails after this many bytes (the call may fail; whatever it
    /// returns, the object and the next serialisation must be unaffected)
    FailedWrite(u16),
}

#[derive(Clone, Debug, Hash, Serialize, Deserialize)]
pub struct HCase {
    pub base: MM,
    /// the object lives inside section 0 of an index map and is reached through
    /// `get_section_mut` / `get_sourcemap_mut`; the index is what gets serialised
    pub in_index: bool,
    pub ops: Vec<HOp>,
    /// `Some`: the object is a Hermes map with these function maps (decoded from a document) and the
    /// ops reach its `SourceMap` part through `DerefMut`
    #[serde(default)]
    pub fb: Option<Vec<Option<Vec<FbMap>>>>,
}

fn pool_string() -> BoxedStrategy<String> {
    proptest::sample::select(vec![
        "a.js", "b.js", "", "/abs/x.js", "http://h/y.js", "https://h/z.js", "src/lib/c.ts", "r", "r/", "/", "webpack:///", "ü.js", "q\"x", "r/a.js", "webpack:///b.js", "src/lib", "https.js",
    ])
    .prop_map(str::to_string)
    .boxed()
}

fn hop_strategy() -> BoxedStrategy<HOp> {
    prop_oneof![
        2 => Just(HOp::Again),
        3 => small_mm(8).prop_map(|m| HOp::Adjust(Box::new(m))),
        3 => proptest::option::of(pool_string()).prop_map(HOp::SetRoot),
        3 => (any::<u16>(), pool_string()).prop_map(|(i, s)| HOp::SetSource(i, s)),
        2 => (any::<u16>(), proptest::option::of(pool_string())).prop_map(|(i, s)| HOp::SetContents(i, s)),
        1 => proptest::option::of(pool_string()).prop_map(HOp::SetFile),
        1 => proptest::option::of(proptest::sample::select(vec![
                "dfb8e43a-f242-3d73-a453-aeb6a777ef75", "00000000-0000-0000-0000-000000000001", "dfb8e43a-f242-3d73-a453-aeb6a777ef75-a",
             ]).prop_map(str::to_string)).prop_map(HOp::SetDebugId),
        1 => any::<u16>().prop_map(HOp::Ignore),
        2 => (0u32..6, 0u32..40).prop_map(|(l, c)| HOp::Read(l, c)),
        1 => Just(HOp::CloneSelf),
        1 => prop_oneof![Just(0u16), 1u16..40, 40u16..400].prop_map(HOp::FailedWrite),
    ]
    .boxed()
}

struct Limited {
    left: usize,
}

impl std::io::Write for Limited {
    fn write(&mut self, buf: &[u8]) -> std::io::Result<usize> {
        if self.left == 0 {
            return Err(std::io::Error::other("disk full (harness)"));
        }
        let n = buf.len().min(self.left);
        self.left -= n;
        Ok(n)
    }
    fn flush(&mut self) -> std::io::Result<()> {
        Ok(())
    }
}

pub fn living(_t: Tier) -> BoxedStrategy<HCase> {
    let p = MMParams { max_tokens: 12, ranges: false, max_sources: 3, max_names: 3, big_lines: false, distinct_strings: false, edge_values: false };
    prop_oneof![
        3 => (small_mm(12), any::<bool>(), proptest::collection::vec(hop_strategy(), 1..9))
            .prop_map(|(base, in_index, ops)| HCase { base, in_index, ops, fb: None }),
        1 => (hermes_strategy(p), any::<bool>(), proptest::collection::vec(hop_strategy(), 1..9))
            .prop_map(|(h, in_index, ops)| HCase { base: h.map, in_index, ops, fb: Some(h.fb) }),
    ]
    .boxed()
}

fn inner_mut(obj: &mut sourcemap::DecodedMap) -> &mut sourcemap::SourceMap {
    match obj {
        sourcemap::DecodedMap::Regular(sm) => sm,
        sourcemap::DecodedMap::Index(idx) => match idx.get_section_mut(0).and_then(|s| s.get_sourcemap_mut()) {
            Some(sourcemap::DecodedMap::Regular(sm)) => sm,
            Some(sourcemap::DecodedMap::Hermes(h)) => h,
            _ => unreachable!("the harness put a regular or Hermes map into section 0"),
        },
        sourcemap::DecodedMap::Hermes(h) => h,
    }
}

pub fn build_living(c: &HCase) -> Result<sourcemap::DecodedMap, String> {
    let inner = match &c.fb {
        None => sourcemap::DecodedMap::Regular(c.base.build().map_err(|e| format!("building the model failed: {e}"))?),
        Some(fb) => {
            let mut map = c.base.clone();
            map.route = Route::Doc;
            sourcemap::DecodedMap::Hermes((MHermes { map, fb: fb.clone() }).build()?)
        }
    };
    Ok(if c.in_index {
        sourcemap::DecodedMap::Index(sourcemap::SourceMapIndex::new(Some("bundle.js".into()), vec![sourcemap::SourceMapSection::new((0, 0), None, Some(inner))]))
    } else {
        inner
    })
}

/// Applies one op to the living object (panics are caught and reported as `Err`).
pub fn apply_hop(obj: &mut sourcemap::DecodedMap, op: &HOp, obs: &mut Obs) -> Result<(), String> {
    use crate::engine::guard;
    let r = guard(|| -> Result<(), String> {
        let sm = inner_mut(obj);
        let n = sm.get_source_count();
        match op {
            HOp::Again => {}
            HOp::Adjust(adj) => {
                let adj = adj.build()?;
                sm.adjust_mappings(&adj);
            }
            HOp::SetRoot(r) => sm.set_source_root(r.clone()),
            HOp::SetSource(i, s) => {
                if n > 0 {
                    sm.set_source(u32::from(*i) % n, s);
                }
            }
            HOp::SetContents(i, s) => {
                if n > 0 {
                    sm.set_source_contents(u32::from(*i) % n, s.as_deref());
                }
            }
            HOp::SetFile(f) => sm.set_file(f.clone()),
            HOp::SetDebugId(d) => sm.set_debug_id(d.as_ref().map(|d| d.parse().expect("pool ids parse"))),
            HOp::Ignore(i) => {
                if n > 0 {
                    sm.add_to_ignore_list(u32::from(*i) % n);
                }
            }
            HOp::Read(l, col) => {
                let _ = sm.lookup_token(*l, *col);
                let _ = sm.tokens().count();
                let _ = sm.to_data_url().map_err(|e| e.to_string())?;
            }
            HOp::CloneSelf => {
                let c = sm.clone();
                *sm = c;
            }
            HOp::FailedWrite(n) => {
                let _ = sm.to_writer(Limited { left: usize::from(*n) });
            }
        }
        Ok(())
    });
    match r {
        Ok(Ok(())) => {}
        Ok(Err(e)) => return Err(format!("{op:?}: {e}")),
        Err(p) => return Err(format!("{op:?}: {p}")),
    }
    obs.class(match op {
        HOp::Again => "op:serialise-again",
        HOp::Adjust(_) => "op:adjust_mappings",
        HOp::SetRoot(_) => "op:set_source_root",
        HOp::SetSource(..) => "op:set_source",
        HOp::SetContents(..) => "op:set_source_contents",
        HOp::SetFile(_) => "op:set_file",
        HOp::SetDebugId(_) => "op:set_debug_id",
        HOp::Ignore(_) => "op:add_to_ignore_list",
        HOp::Read(..) => "op:read-only-use",
        HOp::CloneSelf => "op:clone",
        HOp::FailedWrite(_) => "op:write-into-a-failing-writer",
    });
    Ok(())
}

pub fn hop_mutates(op: &HOp) -> bool {
    !matches!(op, HOp::Again | HOp::Read(..) | HOp::CloneSelf | HOp::FailedWrite(_))
}

fn check_living(c: &HCase, obs: &mut Obs) -> Verdict {
    let mut obj = match build_living(c) {
        Ok(o) => o,
        Err(e) => return Verdict::Fail(e),
    };
    obs.class(if c.in_index { "object-inside-index-section" } else { "object-top-level" });
    obs.class_if(c.fb.is_some(), "object-is-a-hermes-map(ops through DerefMut)");
    let verify = |obj: &sourcemap::DecodedMap, when: &str| -> Result<(), String> {
        let bytes = ser(obj).map_err(|e| format!("{when}: {e}"))?;
        let v: Value = serde_json::from_slice(&bytes).map_err(|e| format!("{when}: serialised form is not JSON: {e}"))?;
        check_serialized_any(obj, &v, false).map_err(|e| format!("{when}: {e}; output={}", String::from_utf8_lossy(&bytes)))
    };
    if let Err(e) = verify(&obj, "before any op") {
        return Verdict::Fail(e);
    }
    let mut mutated_after_write = false;
    // a copy taken when the object is cloned stays alive: whatever is done to the object afterwards, the copy
    // keeps serialising to the bytes it had, and to what its own accessors report
    let mut aside: Option<(sourcemap::DecodedMap, Vec<u8>, usize)> = None;
    for (k, op) in c.ops.iter().enumerate() {
        if matches!(op, HOp::CloneSelf) {
            let copy = obj.clone();
            match ser(&copy) {
                Ok(b) => aside = Some((copy, b, k)),
                Err(e) => return Verdict::Fail(format!("op {k}: serialising a clone: {e}")),
            }
            obs.class("clone-kept-alive");
        }
        if let Err(e) = apply_hop(&mut obj, op, obs) {
            return Verdict::Fail(format!("op {k} {e}"));
        }
        mutated_after_write |= hop_mutates(op);
        if let Err(e) = verify(&obj, &format!("after op {k} {op:?} (ops so far {:?})", &c.ops[..=k])) {
            return Verdict::Fail(e);
        }
        if let Some((old, bytes, since)) = &aside {
            let when = format!("after op {k} {op:?} (ops so far {:?}): the copy taken at op {since}", &c.ops[..=k]);
            if let Err(e) = verify(old, &when) {
                return Verdict::Fail(e);
            }
            match ser(old) {
                Ok(b) if &b == bytes => {}
                Ok(b) => {
                    return Verdict::Fail(format!(
                        "{when} serialises differently although nothing was done to it: {} then, {} now",
                        String::from_utf8_lossy(bytes),
                        String::from_utf8_lossy(&b)
                    ))
                }
                Err(e) => return Verdict::Fail(format!("{when}: {e}")),
            }
        }
    }
    if mutated_after_write && c.ops.len() >= 3 && c.base.tokens.len() >= 2 {
        obs.nontrivial();
    }
    Verdict::Pass
}

fn subs() -> Vec<Sub> {
    vec![
        gen_sub("living_object", living, |t| t.pick(50_000, 400_000), check_living),
        gen_sub("composed_operations", composed, |t| t.pick(30_000, 300_000), check_composed),
        gen_sub("deep_nesting", deep, |t| t.pick(1_500, 12_000), check),
        gen_sub("crowded_positions", crowded, |t| t.pick(12_000, 80_000), check),
        gen_sub("large_maps", large, |t| t.pick(400, 3_000), check),
        gen_sub("serialised", case_strategy, |t| t.pick(100_000, 600_000), check),
    ]
}

pub const DEF: PropertyDef = PropertyDef {
    id: "C03",
    rule: "model maps (regular / Hermes / nested index) built through builder, raw constructor or decoding, optionally passed through \
           rewrite / flatten / adjust_mappings / a round trip; the serialised JSON is read with serde_json::Value and an independent \
           mappings reader and compared with the map's public accessors; living_object: one object (top level or inside an index section) serialised, then \
           mutated / used through every setter, adjust_mappings, lookups, clone, and serialised again after every step. Non-trivial = >= 3 tokens on >= 2 lines plus one of \
           {sourceless token, duplicate position, skipped line, JSON-special or non-ASCII string, contents, ignore list, debug id, root}; \
           Hermes additionally a function map; index: >= 2 sections one of which is non-trivial",
    assumptions: &[
        "maps are well-formed in the sense of C01 (indices in range, no range tokens — range serialisation is C07)",
        "exact consecutive duplicate tokens are normalised on both sides (the encoder drops them, C01 allows it)",
    ],
    subs,
};
