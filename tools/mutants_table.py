# Sensitivity mutants (DESIGN.md §6 "Sensitivity"): each edits /repo so that it still compiles
# and passes the repository's own tests, but breaks the named property.
# edits: (path, old, new) — `old` must occur exactly once.
MUTANTS = []


def M(name, checks, what, *edits):
    MUTANTS.append({"name": name, "checks": checks, "what": what, "edits": list(edits)})


# ---- C02 -------------------------------------------------------------------------------
M("c02-dstcol-kept-across-lines", ["C02"], "decoder keeps the generated column across lines",
  ("src/decoder.rs", "        dst_col = 0;\n\n        decode_rmi", "        if false { dst_col = 0; }\n\n        decode_rmi"))
M("c02-srccol-reset-per-line", ["C02"], "decoder resets the original column on every line",
  ("src/decoder.rs", "        dst_col = 0;\n\n        decode_rmi", "        dst_col = 0;\n        src_col = 0;\n\n        decode_rmi"))
M("c02-swap-src-line-col", ["C02"], "decoder swaps original line and column deltas",
  ("src/decoder.rs", "src_line = (i64::from(src_line) + nums[2]) as u32;\n                src_col = (i64::from(src_col) + nums[3]) as u32;",
   "src_line = (i64::from(src_line) + nums[3]) as u32;\n                src_col = (i64::from(src_col) + nums[2]) as u32;"))
M("c02-prefer-debugId", ["C02"], "debugId wins over debug_id",
  ("src/decoder.rs", "rsm.debug_id.or(rsm._debug_id_new)", "rsm._debug_id_new.or(rsm.debug_id)"))
M("c02-join-absolute", ["C02"], "sourceRoot is joined to '/'-absolute sources too",
  ("src/types.rs", "&& (source.starts_with('/')\n                || source.starts_with(\"http:\")", "&& (source.starts_with(\"//\")\n                || source.starts_with(\"http:\")"))
M("c02-no-sort", ["C02", "C04"], "SourceMap::new does not sort tokens",
  ("src/types.rs", "        tokens.sort_unstable_by_key(|t| (t.dst_line, t.dst_col));\n        SourceMap {", "        if tokens.len() > 100000 { tokens.sort_unstable_by_key(|t| (t.dst_line, t.dst_col)); }\n        SourceMap {"))
M("c02-hermes-as-regular", ["C02"], "x_facebook_sources documents with an empty list decode as regular",
  ("src/decoder.rs", "} else if rsm.x_facebook_sources.is_some() {", "} else if rsm.x_facebook_sources.as_ref().map_or(false, |v| !v.is_empty()) {"))
M("c02-sections-not-sorted", ["C02", "C08"], "index decoder keeps sections in written order",
  ("src/decoder.rs", "    sections.sort_by_key(SourceMapSection::get_offset);", "    if sections.len() > 1000 { sections.sort_by_key(SourceMapSection::get_offset); }"))
M("c02-name-accumulates-per-line", ["C02"], "name index restarts at 0 on each line",
  ("src/decoder.rs", "        dst_col = 0;\n\n        decode_rmi", "        dst_col = 0;\n        name_id = 0;\n\n        decode_rmi"))

# ---- C11 -------------------------------------------------------------------------------
M("c11-sign-bit", ["C11"], "encoder: -0 special case / sign from wrong parity for i64::MIN-like",
  ("src/vlq.rs", "let mut num = if num < 0 { ((-num) << 1) + 1 } else { num << 1 };", "let mut num = if num < 0 && num != -4097 { ((-num) << 1) + 1 } else { num.abs() << 1 };"))
M("c11-13-digit-limit", ["C11"], "decoder rejects 13-digit values (limit off by one)",
  ("src/vlq.rs", "cur += val.checked_shl(shift).ok_or(Error::VlqOverflow)?;", "if shift >= 60 { return Err(Error::VlqOverflow); }\n        cur += val.checked_shl(shift).ok_or(Error::VlqOverflow)?;"))
M("c11-table-swap", ["C11"], "one swapped pair in the reverse table (+ and /)",
  ("src/vlq.rs", "    -1,\n    62,\n    -1,\n    -1,\n    -1,\n    63,", "    -1,\n    63,\n    -1,\n    -1,\n    -1,\n    62,"))

# ---- C16 -------------------------------------------------------------------------------
M("c16-no-recheck-under-lock", ["C16"], "remove the re-check of the line index under the indexing lock (original check-then-lock race)",
  ("src/sourceview.rs", "        if let Some(&line) = lines.get(idx) {\n            return Some(line);\n        }\n        if self.processed_until.load(Ordering::Relaxed) > self.source.len() {\n            return None;\n        }\n        let mut done = false;", "        let mut done = false;"))
M("c16-stale-finished-check", ["C16"], "finished check answers None without looking at the lines again",
  ("src/sourceview.rs", "            return self.lines.lock().unwrap().get(idx).copied();", "            return None;"))
