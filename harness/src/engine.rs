//! Runner shared by all property checks: seeds, case digests, class counters, shrinking,
//! replay files, evidence, known-finding matching, watchdog, counting allocator.
//!
//! Contract (DESIGN.md §2.2): exit 0 = held on everything explored (possibly with
//! KNOWN-FINDING lines), exit 1 + `VIOLATION property=<id> replay=<path>` = a violation that
//! is not a listed known finding, exit 2 = inconclusive (watchdog, harness error).

use std::alloc::{GlobalAlloc, Layout, System};
use std::cell::{Cell, RefCell};
use std::collections::hash_map::DefaultHasher;
use std::collections::{BTreeMap, HashSet};
use std::fmt::Debug;
use std::hash::{Hash, Hasher};
use std::panic::{self, AssertUnwindSafe};
use std::path::{Path, PathBuf};
use std::sync::atomic::{AtomicBool, AtomicU64, Ordering};
use std::sync::{Arc, Mutex};
use std::time::Instant;

use proptest::strategy::{BoxedStrategy, Strategy, ValueTree};
use proptest::test_runner::{Config, RngAlgorithm, RngSeed, TestCaseError, TestError, TestRunner};
use serde::de::DeserializeOwned;
use serde::Serialize;
use serde_json::{json, Value};

/// Root of the verification tree: `/verif`, or `$VERIF_ROOT` (set by `./check` to its own
/// directory, so that a snapshot of /verif taken by `vp run` works on its own files).
pub fn verif_root() -> std::path::PathBuf {
    std::path::PathBuf::from(std::env::var("VERIF_ROOT").unwrap_or_else(|_| "/verif".to_string()))
}

// ---------------------------------------------------------------------------------------
// counting allocator (thread local), used by C05 for the "allocation in proportion" oracle
// ---------------------------------------------------------------------------------------

pub struct CountingAlloc;

thread_local! {
    static ALLOC_BYTES: Cell<u64> = const { Cell::new(0) };
    static ALLOC_ON: Cell<bool> = const { Cell::new(false) };
}

/// A single request above 4 GiB is runaway memory use (e.g. an encoder loop that never ends):
/// stop before the machine runs out of memory. Reported as inconclusive, never as a violation.
const RUNAWAY: usize = 4 << 30;

#[cold]
fn runaway() -> ! {
    let msg = b"INCONCLUSIVE a single allocation request above 4 GiB (runaway memory use in the code under test; memory signal, not a violation)\n";
    unsafe {
        libc::write(1, msg.as_ptr() as *const libc::c_void, msg.len());
        libc::_exit(2)
    }
}

unsafe impl GlobalAlloc for CountingAlloc {
    unsafe fn alloc(&self, layout: Layout) -> *mut u8 {
        if layout.size() > RUNAWAY {
            runaway();
        }
        let _ = ALLOC_ON.try_with(|on| {
            if on.get() {
                let _ = ALLOC_BYTES.try_with(|b| b.set(b.get() + layout.size() as u64));
            }
        });
        System.alloc(layout)
    }
    unsafe fn dealloc(&self, ptr: *mut u8, layout: Layout) {
        System.dealloc(ptr, layout)
    }
    unsafe fn realloc(&self, ptr: *mut u8, layout: Layout, new_size: usize) -> *mut u8 {
        if new_size > RUNAWAY {
            runaway();
        }
        let _ = ALLOC_ON.try_with(|on| {
            if on.get() && new_size > layout.size() {
                let _ = ALLOC_BYTES
                    .try_with(|b| b.set(b.get() + (new_size - layout.size()) as u64));
            }
        });
        System.realloc(ptr, layout, new_size)
    }
}

/// Runs `f` and returns the number of bytes requested from the allocator meanwhile
/// (this thread only; grows of existing blocks count by their growth).
pub fn count_alloc<T>(f: impl FnOnce() -> T) -> (T, u64) {
    let before = ALLOC_BYTES.with(|b| b.get());
    let was = ALLOC_ON.with(|o| o.replace(true));
    let r = f();
    ALLOC_ON.with(|o| o.set(was));
    let after = ALLOC_BYTES.with(|b| b.get());
    (r, after - before)
}

// ---------------------------------------------------------------------------------------
// panics
// ---------------------------------------------------------------------------------------

thread_local! {
    static LAST_PANIC: RefCell<Option<String>> = const { RefCell::new(None) };
}

pub fn install_panic_hook() {
    panic::set_hook(Box::new(|info| {
        let loc = info
            .location()
            .map(|l| format!("{}:{}", l.file(), l.line()))
            .unwrap_or_else(|| "<unknown>".into());
        let msg = if let Some(s) = info.payload().downcast_ref::<&str>() {
            s.to_string()
        } else if let Some(s) = info.payload().downcast_ref::<String>() {
            s.clone()
        } else {
            "<non-string payload>".into()
        };
        let _ = LAST_PANIC.try_with(|p| *p.borrow_mut() = Some(format!("{loc}: {msg}")));
    }));
}

/// Runs `f` under `catch_unwind`; a panic becomes `Err("panic at <file:line>: <msg>")`.
pub fn guard<T>(f: impl FnOnce() -> T) -> Result<T, String> {
    match panic::catch_unwind(AssertUnwindSafe(f)) {
        Ok(v) => Ok(v),
        Err(_) => {
            let s = LAST_PANIC
                .with(|p| p.borrow_mut().take())
                .unwrap_or_else(|| "<no panic info>".into());
            Err(format!("panic at {s}"))
        }
    }
}

/// `guard` that turns a panic straight into a failing verdict via `?` on `Result<_, String>`.
#[macro_export]
macro_rules! guarded {
    ($what:expr, $e:expr) => {
        match $crate::engine::guard(|| $e) {
            Ok(v) => v,
            Err(p) => return $crate::engine::Verdict::Fail(format!("{}: {}", $what, p)),
        }
    };
}

#[macro_export]
macro_rules! ensure {
    ($cond:expr, $($fmt:tt)+) => {
        if !($cond) {
            return $crate::engine::Verdict::Fail(format!($($fmt)+));
        }
    };
}

#[macro_export]
macro_rules! ensure_eq {
    ($a:expr, $b:expr, $($fmt:tt)+) => {{
        let (a, b) = (&$a, &$b);
        if a != b {
            return $crate::engine::Verdict::Fail(format!(
                "{}: left={:?} right={:?}", format!($($fmt)+), a, b));
        }
    }};
}

// ---------------------------------------------------------------------------------------
// verdicts, per-case observations
// ---------------------------------------------------------------------------------------

#[derive(Clone, Copy, PartialEq, Eq, Debug)]
pub enum Tier {
    Quick,
    Thorough,
}

impl Tier {
    pub fn pick<T>(self, quick: T, thorough: T) -> T {
        match self {
            Tier::Quick => quick,
            Tier::Thorough => thorough,
        }
    }
    pub fn name(self) -> &'static str {
        self.pick("quick", "thorough")
    }
}

#[derive(Debug, Clone)]
pub enum Verdict {
    Pass,
    /// The case fails, and the failure matches the signature of the known finding `id`.
    Known(&'static str, String),
    Fail(String),
}

impl Verdict {
    pub fn is_pass(&self) -> bool {
        matches!(self, Verdict::Pass)
    }
}

/// What a check reports about one case besides the verdict.
#[derive(Default)]
pub struct Obs {
    pub classes: Vec<&'static str>,
    pub nontrivial: bool,
    /// number of sub-cases steered away from / tolerated for a known finding
    pub excluded_known: u64,
    /// additional evaluations performed inside this case (queries, sub-cases)
    pub inner_evals: u64,
}

impl Obs {
    pub fn class(&mut self, c: &'static str) {
        if !self.classes.contains(&c) {
            self.classes.push(c);
        }
    }
    pub fn class_if(&mut self, cond: bool, c: &'static str) {
        if cond {
            self.class(c)
        }
    }
    pub fn nontrivial(&mut self) {
        self.nontrivial = true;
    }
}

#[derive(Default)]
pub struct Stats {
    pub evals: u64,
    pub inner_evals: u64,
    pub classes: BTreeMap<String, u64>,
    pub nontrivial: HashSet<u64>,
    pub bulk_nontrivial: u64,
    pub samples: Vec<Value>,
    pub known_hits: BTreeMap<&'static str, (u64, String)>,
    pub excluded_known: u64,
}

impl Stats {
    fn merge(&mut self, o: Stats) {
        self.evals += o.evals;
        self.inner_evals += o.inner_evals;
        for (k, v) in o.classes {
            *self.classes.entry(k).or_insert(0) += v;
        }
        self.nontrivial.extend(o.nontrivial);
        self.bulk_nontrivial += o.bulk_nontrivial;
        for s in o.samples {
            if self.samples.len() < 6 {
                self.samples.push(s);
            }
        }
        for (k, (n, w)) in o.known_hits {
            let e = self.known_hits.entry(k).or_insert((0, w));
            e.0 += n;
        }
        self.excluded_known += o.excluded_known;
    }

    fn record<C: Hash + Serialize>(&mut self, sub: &str, case: &C, obs: Obs) {
        self.evals += 1;
        self.inner_evals += obs.inner_evals;
        self.excluded_known += obs.excluded_known;
        for c in &obs.classes {
            *self.classes.entry(format!("{sub}/{c}")).or_insert(0) += 1;
        }
        if obs.nontrivial {
            let d = digest(case);
            let fresh = self.nontrivial.insert(d);
            if fresh && self.samples.len() < 2 {
                self.samples.push(json!({"sub": sub, "nontrivial": true, "case": render(case)}));
            }
        } else if self.evals == 1 {
            self.samples.push(json!({"sub": sub, "nontrivial": false, "case": render(case)}));
        }
    }
}

pub fn digest<C: Hash>(case: &C) -> u64 {
    let mut h = DefaultHasher::new();
    case.hash(&mut h);
    h.finish()
}

fn render<C: Serialize>(case: &C) -> Value {
    let v = serde_json::to_value(case).unwrap_or(Value::Null);
    let s = v.to_string();
    if s.len() > 3000 {
        let mut cut = 3000;
        while !s.is_char_boundary(cut) {
            cut -= 1;
        }
        Value::String(format!("{}… ({} bytes of JSON)", &s[..cut], s.len()))
    } else {
        v
    }
}

#[derive(Debug, Clone)]
pub struct Failure {
    pub sub: String,
    pub reason: String,
    pub case: Value,
    pub replay_path: Option<PathBuf>,
}

// ---------------------------------------------------------------------------------------
// known findings file
// ---------------------------------------------------------------------------------------

#[derive(Debug, Clone)]
pub struct KnownFinding {
    pub id: String,
    pub property: String,
    pub what: String,
}

pub fn load_known_findings() -> Vec<KnownFinding> {
    let p = verif_root().join("known_findings.json");
    let Ok(text) = std::fs::read_to_string(&p) else {
        return vec![];
    };
    let Ok(v) = serde_json::from_str::<Value>(&text) else {
        eprintln!("known_findings.json does not parse; treating as empty");
        return vec![];
    };
    let mut out = vec![];
    for e in v["findings"].as_array().cloned().unwrap_or_default() {
        if e["kind"] == "known" {
            out.push(KnownFinding {
                id: e["id"].as_str().unwrap_or("").to_string(),
                property: e["property"].as_str().unwrap_or("").to_string(),
                what: e["what"].as_str().unwrap_or("").to_string(),
            });
        }
    }
    out
}

// ---------------------------------------------------------------------------------------
// watchdog
// ---------------------------------------------------------------------------------------

static HEARTBEAT: AtomicU64 = AtomicU64::new(0);

pub fn heartbeat() {
    HEARTBEAT.fetch_add(1, Ordering::Relaxed);
}

fn start_watchdog(id: String, limit_s: u64) {
    std::thread::spawn(move || {
        let mut last = HEARTBEAT.load(Ordering::Relaxed);
        let mut stale = 0u64;
        loop {
            std::thread::sleep(std::time::Duration::from_secs(5));
            let now = HEARTBEAT.load(Ordering::Relaxed);
            if now == last {
                stale += 5;
                if stale >= limit_s {
                    println!(
                        "INCONCLUSIVE property={id} watchdog: no case completed for {stale} s \
                         (a wall-clock signal is never reported as a violation)"
                    );
                    std::process::exit(2);
                }
            } else {
                stale = 0;
                last = now;
            }
        }
    });
}

// ---------------------------------------------------------------------------------------
// sub-checks
// ---------------------------------------------------------------------------------------

pub type CheckFn<C> = fn(&C, &mut Obs) -> Verdict;

/// One named part of a property check. `run` explores, `replay` re-executes a saved case.
pub struct Sub {
    pub name: &'static str,
    pub run: Box<dyn Fn(&mut Ctx)>,
    pub replay: Box<dyn Fn(&Value, &mut Obs) -> Result<Verdict, String>>,
}

fn call_check<C>(check: CheckFn<C>, case: &C, obs: &mut Obs) -> Verdict {
    heartbeat();
    match guard(|| check(case, obs)) {
        Ok(v) => v,
        Err(p) => Verdict::Fail(format!("uncaught {p}")),
    }
}

fn replay_fn<C: DeserializeOwned + 'static>(
    check: CheckFn<C>,
) -> Box<dyn Fn(&Value, &mut Obs) -> Result<Verdict, String>> {
    Box::new(move |v, obs| {
        let case: C = serde_json::from_value(v.clone()).map_err(|e| e.to_string())?;
        Ok(call_check(check, &case, obs))
    })
}

/// A sub-check driven by a proptest strategy. `cases(tier)` is the total number of generated
/// cases (split over the worker threads, each with its own derived fixed seed).
pub fn gen_sub<C>(
    name: &'static str,
    strat: fn(Tier) -> BoxedStrategy<C>,
    cases: fn(Tier) -> u32,
    check: CheckFn<C>,
) -> Sub
where
    C: Clone + Debug + Hash + Serialize + DeserializeOwned + Send + 'static,
{
    Sub {
        name,
        run: Box::new(move |ctx| run_generated(ctx, name, strat, cases(ctx.tier), check)),
        replay: replay_fn(check),
    }
}

/// A sub-check over an enumerated (finite) case list. The iterator is rebuilt in every worker
/// thread and each worker takes the cases whose index is congruent to its shard.
pub fn enum_sub<C>(
    name: &'static str,
    make: fn(Tier) -> Box<dyn Iterator<Item = C>>,
    check: CheckFn<C>,
) -> Sub
where
    C: Clone + Debug + Hash + Serialize + DeserializeOwned + Send + 'static,
{
    Sub {
        name,
        run: Box::new(move |ctx| run_enumerated(ctx, name, make, check)),
        replay: replay_fn(check),
    }
}

/// A sub-check that drives itself (bulk enumerations with their own counters).
pub fn custom_sub<C>(name: &'static str, run: fn(&mut Ctx), check: CheckFn<C>) -> Sub
where
    C: DeserializeOwned + 'static,
{
    Sub {
        name,
        run: Box::new(run),
        replay: replay_fn(check),
    }
}

// ---------------------------------------------------------------------------------------
// context
// ---------------------------------------------------------------------------------------

pub struct Ctx {
    pub id: String,
    pub tier: Tier,
    pub seed: u64,
    pub threads: usize,
    pub stats: Stats,
    pub failures: Vec<Failure>,
    pub known: Vec<KnownFinding>,
    pub exhaustive: Vec<String>,
    pub extra: BTreeMap<String, Value>,
    pub sub_evals: BTreeMap<String, u64>,
    pub rules: Vec<String>,
    pub assumptions: Vec<String>,
    pub inconclusive: Vec<String>,
    start: Instant,
}

fn known_listed(known: &[KnownFinding], prop: &str, id: &str) -> bool {
    known.iter().any(|k| k.id == id && k.property == prop)
}

impl Ctx {
    pub fn new(id: &str, tier: Tier, seed: u64) -> Ctx {
        let threads = match std::env::var("VERIF_THREADS").ok().and_then(|s| s.parse().ok()) {
            Some(n) => n,
            None => tier.pick(4, 16),
        };
        Ctx {
            id: id.to_string(),
            tier,
            seed,
            threads,
            stats: Stats::default(),
            failures: vec![],
            known: load_known_findings(),
            exhaustive: vec![],
            extra: BTreeMap::new(),
            sub_evals: BTreeMap::new(),
            rules: vec![],
            assumptions: vec![],
            inconclusive: vec![],
            start: Instant::now(),
        }
    }

    pub fn failed(&self) -> bool {
        !self.failures.is_empty()
    }

    /// Records a fully enumerated sub-space (for `exhaustive: true` in the evidence).
    pub fn note_exhaustive(&mut self, what: impl Into<String>) {
        self.exhaustive.push(what.into());
    }

    /// Bulk accounting for enumerations whose cases are distinct by construction.
    pub fn bulk(&mut self, sub: &str, evals: u64, nontrivial_distinct: u64) {
        self.stats.evals += evals;
        self.stats.bulk_nontrivial += nontrivial_distinct;
        *self.sub_evals.entry(sub.to_string()).or_insert(0) += evals;
    }

    pub fn class_add(&mut self, name: &str, n: u64) {
        *self.stats.classes.entry(name.to_string()).or_insert(0) += n;
    }

    pub fn sample(&mut self, v: Value) {
        if self.stats.samples.len() < 8 {
            self.stats.samples.push(v);
        }
    }

    /// Turns a verdict for a concrete (already minimal) case into bookkeeping.
    /// Returns true when the case counts as passing (Pass or a listed known finding).
    pub fn settle<C: Serialize>(&mut self, sub: &str, case: &C, verdict: Verdict) -> bool {
        match verdict {
            Verdict::Pass => true,
            Verdict::Known(kid, what) if known_listed(&self.known, &self.id, kid) => {
                let e = self.stats.known_hits.entry(kid).or_insert((0, what));
                e.0 += 1;
                true
            }
            Verdict::Known(kid, what) => {
                self.fail(sub, case, format!("[unlisted finding signature {kid}] {what}"));
                false
            }
            Verdict::Fail(reason) => {
                self.fail(sub, case, reason);
                false
            }
        }
    }

    pub fn fail<C: Serialize>(&mut self, sub: &str, case: &C, reason: String) {
        let case_v = serde_json::to_value(case).unwrap_or(Value::Null);
        let path = write_replay(&self.id, sub, &reason, &case_v);
        self.failures.push(Failure {
            sub: sub.to_string(),
            reason,
            case: case_v,
            replay_path: path,
        });
    }

    fn absorb(&mut self, sub: &str, st: Stats) {
        *self.sub_evals.entry(sub.to_string()).or_insert(0) += st.evals;
        self.stats.merge(st);
    }
}

fn write_replay(id: &str, sub: &str, reason: &str, case: &Value) -> Option<PathBuf> {
    let dir = verif_root().join("replays").join(id);
    std::fs::create_dir_all(&dir).ok()?;
    let d = {
        let mut h = DefaultHasher::new();
        case.to_string().hash(&mut h);
        h.finish()
    };
    let p = dir.join(format!("{sub}-{d:016x}.json"));
    let doc = json!({"property": id, "sub": sub, "reason": reason, "case": case});
    std::fs::write(&p, serde_json::to_vec_pretty(&doc).ok()?).ok()?;
    Some(p)
}

// ---------------------------------------------------------------------------------------
// generated search (proptest)
// ---------------------------------------------------------------------------------------

struct ThreadOutcome<C> {
    stats: Stats,
    failure: Option<(C, String)>,
    rejected: Option<String>,
}

fn seed_bytes(seed: u64, sub: &str, thread: usize) -> u64 {
    let mut h = DefaultHasher::new();
    (seed, sub, thread as u64, 0x5eed_u64).hash(&mut h);
    h.finish()
}

fn run_generated<C>(
    ctx: &mut Ctx,
    sub: &'static str,
    strat: fn(Tier) -> BoxedStrategy<C>,
    cases: u32,
    check: CheckFn<C>,
) where
    C: Clone + Debug + Hash + Serialize + DeserializeOwned + Send + 'static,
{
    if ctx.failed() {
        return;
    }
    let threads = ctx.threads.max(1).min(cases.max(1) as usize);
    let per = cases.div_ceil(threads as u32);
    let tier = ctx.tier;
    let seed = ctx.seed;
    let prop_id = ctx.id.clone();
    let known = Arc::new(ctx.known.clone());
    let stop = Arc::new(AtomicBool::new(false));
    let mut handles = vec![];
    for t in 0..threads {
        let stop = stop.clone();
        let known = known.clone();
        let prop_id = prop_id.clone();
        handles.push(
            std::thread::Builder::new()
                .name(format!("{sub}-{t}"))
                .stack_size(64 << 20)
                .spawn(move || -> ThreadOutcome<C> {
                    let strategy = strat(tier);
                    let config = Config {
                        cases: per,
                        failure_persistence: None,
                        rng_seed: RngSeed::Fixed(seed_bytes(seed, sub, t)),
                        rng_algorithm: RngAlgorithm::ChaCha,
                        max_shrink_iters: 6_000,
                        // bounds the *minimisation* only (a slow failing case, e.g. a detected deadlock);
                        // the verdict never depends on it
                        max_shrink_time: 240_000,
                        max_global_rejects: 1_000_000,
                        ..Config::default()
                    };
                    let mut runner = TestRunner::new(config);
                    let stats = Mutex::new(Stats::default());
                    let failed = AtomicBool::new(false);
                    let result = runner.run(&strategy, |case| {
                        if stop.load(Ordering::Relaxed) && !failed.load(Ordering::Relaxed) {
                            // another worker found a failure: finish quickly
                            return Ok(());
                        }
                        let mut obs = Obs::default();
                        let v = call_check(check, &case, &mut obs);
                        let counting = !failed.load(Ordering::Relaxed);
                        let mut st = stats.lock().unwrap();
                        match v {
                            Verdict::Pass => {
                                if counting {
                                    st.record(sub, &case, obs);
                                }
                                Ok(())
                            }
                            Verdict::Known(kid, what) if known_listed(&known, &prop_id, kid) => {
                                if counting {
                                    st.record(sub, &case, obs);
                                    let e = st.known_hits.entry(kid).or_insert((0, what));
                                    e.0 += 1;
                                }
                                Ok(())
                            }
                            Verdict::Known(kid, what) => {
                                failed.store(true, Ordering::Relaxed);
                                stop.store(true, Ordering::Relaxed);
                                Err(TestCaseError::fail(format!(
                                    "[unlisted finding signature {kid}] {what}"
                                )))
                            }
                            Verdict::Fail(r) => {
                                failed.store(true, Ordering::Relaxed);
                                stop.store(true, Ordering::Relaxed);
                                Err(TestCaseError::fail(r))
                            }
                        }
                    });
                    let stats = stats.into_inner().unwrap();
                    match result {
                        Ok(()) => ThreadOutcome {
                            stats,
                            failure: None,
                            rejected: None,
                        },
                        Err(TestError::Fail(reason, case)) => ThreadOutcome {
                            stats,
                            failure: Some((case, reason.message().to_string())),
                            rejected: None,
                        },
                        Err(TestError::Abort(reason)) => ThreadOutcome {
                            stats,
                            failure: None,
                            rejected: Some(reason.message().to_string()),
                        },
                    }
                })
                .expect("spawn"),
        );
    }
    let mut first_failure: Option<(C, String)> = None;
    for h in handles {
        match h.join() {
            Ok(o) => {
                ctx.absorb(sub, o.stats);
                if let Some(r) = o.rejected {
                    ctx.inconclusive
                        .push(format!("{sub}: generator aborted: {r}"));
                }
                if first_failure.is_none() {
                    first_failure = o.failure;
                }
            }
            Err(_) => ctx.inconclusive.push(format!("{sub}: worker thread died")),
        }
    }
    if let Some((case, reason)) = first_failure {
        // re-execute the shrunk case once through the plain path before reporting it
        let mut obs = Obs::default();
        let again = call_check(check, &case, &mut obs);
        match again {
            Verdict::Pass => ctx.inconclusive.push(format!(
                "{sub}: shrunk failure did not reproduce from its replay case ({reason})"
            )),
            v => {
                ctx.settle(sub, &case, v);
            }
        }
    }
}

// ---------------------------------------------------------------------------------------
// enumerated search
// ---------------------------------------------------------------------------------------

fn run_enumerated<C>(
    ctx: &mut Ctx,
    sub: &'static str,
    make: fn(Tier) -> Box<dyn Iterator<Item = C>>,
    check: CheckFn<C>,
) where
    C: Clone + Debug + Hash + Serialize + DeserializeOwned + Send + 'static,
{
    if ctx.failed() {
        return;
    }
    let threads = ctx.threads.max(1);
    let tier = ctx.tier;
    let prop_id = ctx.id.clone();
    let known = Arc::new(ctx.known.clone());
    let stop = Arc::new(AtomicBool::new(false));
    let mut handles = vec![];
    for t in 0..threads {
        let stop = stop.clone();
        let known = known.clone();
        let prop_id = prop_id.clone();
        handles.push(
            std::thread::Builder::new()
                .name(format!("{sub}-{t}"))
                .stack_size(64 << 20)
                .spawn(move || -> ThreadOutcome<C> {
                    let mut stats = Stats::default();
                    let mut failure = None;
                    for (i, case) in make(tier).enumerate() {
                        if i % threads != t {
                            continue;
                        }
                        if stop.load(Ordering::Relaxed) {
                            break;
                        }
                        let mut obs = Obs::default();
                        match call_check(check, &case, &mut obs) {
                            Verdict::Pass => stats.record(sub, &case, obs),
                            Verdict::Known(kid, what) if known_listed(&known, &prop_id, kid) => {
                                stats.record(sub, &case, obs);
                                let e = stats.known_hits.entry(kid).or_insert((0, what));
                                e.0 += 1;
                            }
                            Verdict::Known(kid, what) => {
                                failure =
                                    Some((i, case, format!("[unlisted finding signature {kid}] {what}")));
                                stop.store(true, Ordering::Relaxed);
                                break;
                            }
                            Verdict::Fail(r) => {
                                failure = Some((i, case, r));
                                stop.store(true, Ordering::Relaxed);
                                break;
                            }
                        }
                    }
                    ThreadOutcome {
                        stats,
                        failure: failure.map(|(_, c, r)| (c, r)),
                        rejected: None,
                    }
                })
                .expect("spawn"),
        );
    }
    let mut first_failure: Option<(C, String)> = None;
    for h in handles {
        match h.join() {
            Ok(o) => {
                ctx.absorb(sub, o.stats);
                if first_failure.is_none() {
                    first_failure = o.failure;
                }
            }
            Err(_) => ctx.inconclusive.push(format!("{sub}: worker thread died")),
        }
    }
    if let Some((case, reason)) = first_failure {
        ctx.fail(sub, &case, reason);
    }
}

/// Shrinks nothing, generates `n` values from a strategy with a fixed seed (used by custom
/// subs and by the fuzz corpus builder).
pub fn sample_strategy<C: Debug>(strat: &BoxedStrategy<C>, seed: u64, n: usize) -> Vec<C> {
    let config = Config {
        failure_persistence: None,
        rng_seed: RngSeed::Fixed(seed),
        ..Config::default()
    };
    let mut runner = TestRunner::new(config);
    (0..n)
        .filter_map(|_| strat.new_tree(&mut runner).ok().map(|t| t.current()))
        .collect()
}

// ---------------------------------------------------------------------------------------
// whole-property driver
// ---------------------------------------------------------------------------------------

pub struct PropertyDef {
    pub id: &'static str,
    pub rule: &'static str,
    pub assumptions: &'static [&'static str],
    pub subs: fn() -> Vec<Sub>,
}

fn regress_files(id: &str) -> Vec<PathBuf> {
    let dir = verif_root().join("regress").join(id);
    let mut v: Vec<PathBuf> = std::fs::read_dir(dir)
        .map(|rd| {
            rd.filter_map(|e| e.ok().map(|e| e.path()))
                .filter(|p| p.extension().map(|e| e == "json").unwrap_or(false))
                .collect()
        })
        .unwrap_or_default();
    v.sort();
    v
}

pub enum ReplayOutcome {
    Pass,
    Known(String, String),
    Fail(String),
    Error(String),
}

pub fn replay_file(def: &PropertyDef, known: &[KnownFinding], path: &Path) -> ReplayOutcome {
    let text = match std::fs::read_to_string(path) {
        Ok(t) => t,
        Err(e) => return ReplayOutcome::Error(format!("cannot read {}: {e}", path.display())),
    };
    let doc: Value = match serde_json::from_str(&text) {
        Ok(v) => v,
        Err(e) => return ReplayOutcome::Error(format!("{}: {e}", path.display())),
    };
    let sub = doc["sub"].as_str().unwrap_or("");
    let subs = (def.subs)();
    let Some(s) = subs.iter().find(|s| s.name == sub) else {
        return ReplayOutcome::Error(format!("{}: unknown sub-check {sub:?}", path.display()));
    };
    let mut obs = Obs::default();
    match (s.replay)(&doc["case"], &mut obs) {
        Err(e) => ReplayOutcome::Error(format!("{}: case does not deserialise: {e}", path.display())),
        Ok(Verdict::Pass) => ReplayOutcome::Pass,
        Ok(Verdict::Known(kid, what)) if known_listed(known, def.id, kid) => {
            ReplayOutcome::Known(kid.to_string(), what)
        }
        Ok(Verdict::Known(kid, what)) => {
            ReplayOutcome::Fail(format!("[unlisted finding signature {kid}] {what}"))
        }
        Ok(Verdict::Fail(r)) => ReplayOutcome::Fail(r),
    }
}

/// Runs a whole property; returns the process exit code.
pub fn run_property(def: &PropertyDef, tier: Tier, seed: u64, only_sub: Option<&str>) -> i32 {
    install_panic_hook();
    start_watchdog(def.id.to_string(), 300);
    let mut ctx = Ctx::new(def.id, tier, seed);
    ctx.rules.push(def.rule.to_string());
    ctx.assumptions
        .extend(def.assumptions.iter().map(|s| s.to_string()));

    // (1) committed reproducers
    let mut regress_n = 0u64;
    let mut violation_lines: Vec<String> = vec![];
    let mut regress_known: BTreeMap<String, (u64, String)> = BTreeMap::new();
    // VERIF_SKIP_REGRESS=1 (analysis only): see whether generation alone finds what a committed
    // reproducer would report first
    let skip_regress = std::env::var("VERIF_SKIP_REGRESS").is_ok();
    for p in regress_files(def.id) {
        if skip_regress {
            break;
        }
        regress_n += 1;
        match replay_file(def, &ctx.known, &p) {
            ReplayOutcome::Pass => {}
            ReplayOutcome::Known(kid, what) => {
                let e = regress_known.entry(kid).or_insert((0, what));
                e.0 += 1;
            }
            ReplayOutcome::Fail(r) => {
                println!("regress case {} fails: {r}", p.display());
                violation_lines.push(format!(
                    "VIOLATION property={} replay={}",
                    def.id,
                    p.display()
                ));
            }
            ReplayOutcome::Error(e) => ctx.inconclusive.push(e),
        }
    }
    ctx.extra.insert("regress_replayed".into(), json!(regress_n));

    // (2..) sub-checks
    if violation_lines.is_empty() {
        for s in (def.subs)() {
            if let Some(o) = only_sub {
                if o != s.name {
                    continue;
                }
            }
            let t0 = Instant::now();
            (s.run)(&mut ctx);
            ctx.extra.insert(
                format!("wall_s/{}", s.name),
                json!((t0.elapsed().as_secs_f64() * 100.0).round() / 100.0),
            );
            if ctx.failed() {
                break;
            }
        }
    }

    for f in &ctx.failures {
        println!("failure in {}/{}: {}", def.id, f.sub, f.reason);
        let p = f
            .replay_path
            .as_ref()
            .map(|p| p.display().to_string())
            .unwrap_or_else(|| "<unwritable>".into());
        violation_lines.push(format!("VIOLATION property={} replay={}", def.id, p));
    }

    // known findings
    let mut known_lines = vec![];
    let mut all_known: BTreeMap<String, (u64, String)> = regress_known;
    for (k, (n, w)) in &ctx.stats.known_hits {
        let e = all_known.entry(k.to_string()).or_insert((0, w.clone()));
        e.0 += n;
    }
    for (kid, (n, what)) in &all_known {
        let listed = ctx
            .known
            .iter()
            .find(|k| &k.id == kid)
            .map(|k| k.what.clone())
            .unwrap_or_default();
        known_lines.push(format!(
            "KNOWN-FINDING: property={} {kid} {listed} [{n} case(s) this run; e.g. {what}]",
            def.id
        ));
    }
    for l in &known_lines {
        println!("{l}");
    }

    write_evidence(&ctx, violation_lines.len(), &all_known);

    for l in &violation_lines {
        println!("{l}");
    }
    let code = if !violation_lines.is_empty() {
        1
    } else if !ctx.inconclusive.is_empty() {
        for i in &ctx.inconclusive {
            println!("INCONCLUSIVE property={} {i}", def.id);
        }
        2
    } else {
        0
    };
    println!(
        "{} {} seed={} evaluations={} distinct_nontrivial={} wall={:.1}s exit={}",
        def.id,
        tier.name(),
        seed,
        ctx.stats.evals,
        ctx.stats.nontrivial.len() as u64 + ctx.stats.bulk_nontrivial,
        ctx.start.elapsed().as_secs_f64(),
        code
    );
    code
}

fn write_evidence(ctx: &Ctx, violations: usize, known: &BTreeMap<String, (u64, String)>) {
    let mut coverage = serde_json::Map::new();
    coverage.insert("evaluations".into(), json!(ctx.stats.evals));
    coverage.insert(
        "distinct_nontrivial".into(),
        json!(ctx.stats.nontrivial.len() as u64 + ctx.stats.bulk_nontrivial),
    );
    coverage.insert("rule".into(), json!(ctx.rules.join(" | ")));
    coverage.insert("samples".into(), json!(ctx.stats.samples));
    coverage.insert("inner_evaluations".into(), json!(ctx.stats.inner_evals));
    coverage.insert("classes".into(), json!(ctx.stats.classes));
    coverage.insert("evaluations_per_sub".into(), json!(ctx.sub_evals));
    coverage.insert("exhaustive".into(), json!(!ctx.exhaustive.is_empty()));
    coverage.insert("exhaustive_subspaces".into(), json!(ctx.exhaustive));
    coverage.insert("excluded_known".into(), json!(ctx.stats.excluded_known));
    coverage.insert(
        "known_findings_hit".into(),
        json!(known
            .iter()
            .map(|(k, (n, w))| json!({"id": k, "cases": n, "example": w}))
            .collect::<Vec<_>>()),
    );
    coverage.insert("threads".into(), json!(ctx.threads));
    coverage.insert("inconclusive".into(), json!(ctx.inconclusive));
    for (k, v) in &ctx.extra {
        coverage.insert(k.clone(), v.clone());
    }
    let doc = json!({
        "property_id": ctx.id,
        "tier": ctx.tier.name(),
        "seed": ctx.seed,
        "level": "exploration",
        "coverage": Value::Object(coverage),
        "assumptions": ctx.assumptions,
        "wall_s": (ctx.start.elapsed().as_secs_f64() * 100.0).round() / 100.0,
        "violations": violations,
    });
    let dir = verif_root().join("evidence");
    let _ = std::fs::create_dir_all(&dir);
    let p = dir.join(format!("{}.json", ctx.id));
    if let Err(e) = std::fs::write(&p, serde_json::to_vec_pretty(&doc).unwrap()) {
        eprintln!("cannot write evidence {}: {e}", p.display());
    }
}
