#!/usr/bin/env python3
"""Seeded defects written by independent sub-agents (they saw only the property text and a
scratch worktree of /repo).

  tools/seeded.py import <ID> <a|b> <deliver_dir>   copy patch.diff / demo.rs / notes.md into /verif/seeded/<ID>-<v>/
  tools/seeded.py verify <ID>-<v>                   confirm in a scratch worktree: compiles, repository tests pass
                                                    with the change, demo fails with / passes without it
  tools/seeded.py run <ID>-<v> [checks...]          apply to /repo, run the quick tier of the checks (default: owning
                                                    check; 'all' = all twenty), undo; result -> meta.json
"""
import json, os, shutil, subprocess, sys, time

ROOT = "/verif/seeded"
REPO = "/repo"


def sh(cmd, cwd=None, timeout=3600):
    return subprocess.run(cmd, shell=True, capture_output=True, text=True, cwd=cwd, timeout=timeout)


def meta_path(name):
    return os.path.join(ROOT, name, "meta.json")


def load_meta(name):
    p = meta_path(name)
    return json.load(open(p)) if os.path.exists(p) else {}


def save_meta(name, m):
    json.dump(m, open(meta_path(name), "w"), indent=1)


def cmd_import(pid, v, src):
    name = f"{pid}-{v}"
    d = os.path.join(ROOT, name)
    os.makedirs(d, exist_ok=True)
    for f in ("patch.diff", "demo.rs", "notes.md"):
        s = os.path.join(src, f)
        if os.path.exists(s):
            shutil.copy(s, os.path.join(d, f))
    m = load_meta(name)
    m.update({"property": pid, "variant": v, "origin": "fresh sub-agent given only the property text and a scratch worktree of /repo"})
    save_meta(name, m)
    print("imported", name)


def cmd_verify(name):
    d = os.path.join(ROOT, name)
    wt = f"/tmp/seedchk/{name}"
    sh(f"git -C {REPO} worktree remove --force {wt}")
    shutil.rmtree(wt, ignore_errors=True)
    os.makedirs("/tmp/seedchk", exist_ok=True)
    r = sh(f"git -C {REPO} worktree add --detach {wt} HEAD")
    if r.returncode:
        raise SystemExit(r.stderr)
    m = load_meta(name)
    try:
        demo = f"tests/seeded_demo_{name.replace('-', '_').lower()}.rs"
        shutil.copy(os.path.join(d, "demo.rs"), os.path.join(wt, demo))
        feat = "--all-features" if "ram_bundle" in open(os.path.join(d, "patch.diff")).read() else ""
        # without the change: demo passes
        r0 = sh(f"cargo test --offline {feat} --test {os.path.basename(demo)[:-3]} 2>&1 | tail -15", cwd=wt)
        m["demo_passes_without_change"] = "test result: ok" in r0.stdout and "FAILED" not in r0.stdout
        ap = sh(f"git apply {os.path.join(d, 'patch.diff')}", cwd=wt)
        m["patch_applies"] = ap.returncode == 0
        if ap.returncode:
            m["patch_error"] = ap.stderr[-500:]
        else:
            r1 = sh(f"cargo test --offline {feat} --test {os.path.basename(demo)[:-3]} 2>&1 | tail -25", cwd=wt)
            m["demo_fails_with_change"] = "FAILED" in r1.stdout or "panicked" in r1.stdout
            m["compiles_with_change"] = "error[" not in r1.stdout and "could not compile" not in r1.stdout
            os.remove(os.path.join(wt, demo))
            r2 = sh(f"cargo test --offline {feat} 2>&1 | grep -E '^test result|FAILED|^error' ", cwd=wt)
            m["repo_tests_pass_with_change"] = "FAILED" not in r2.stdout and "error" not in r2.stdout and "test result: ok" in r2.stdout
        m["verified_by"] = "tools/seeded.py verify (scratch worktree, removed afterwards)"
        m["commands"] = [f"cargo test --offline {feat} --test <demo> (without change)", "git apply patch.diff",
                         f"cargo test --offline {feat} --test <demo> (with change)", f"cargo test --offline {feat} (repository suite with change)"]
    finally:
        sh(f"git -C {REPO} worktree remove --force {wt}")
        shutil.rmtree(wt, ignore_errors=True)
    m["confirmed"] = bool(m.get("demo_passes_without_change") and m.get("demo_fails_with_change") and m.get("repo_tests_pass_with_change"))
    save_meta(name, m)
    print(name, "confirmed" if m["confirmed"] else "NOT CONFIRMED", {k: m.get(k) for k in ("demo_passes_without_change", "demo_fails_with_change", "repo_tests_pass_with_change", "patch_applies")})


def cmd_run(name, checks):
    d = os.path.join(ROOT, name)
    m = load_meta(name)
    # --key <suffix>: store the outcome under checks_<suffix> / caught_by_<suffix> (e.g. the
    # outcome with an earlier version of the harness)
    key = ""
    if "--key" in checks:
        i = checks.index("--key")
        key = "_" + checks[i + 1]
        checks = checks[:i] + checks[i + 2:]
    if sh(f"git -C {REPO} status --porcelain").stdout.strip():
        raise SystemExit("/repo working tree is not clean")
    if not checks:
        checks = [m["property"]]
    if checks == ["all"]:
        checks = ["C%02d" % i for i in range(1, 21)]
    res = m.get("checks" + key, {})
    try:
        ap = sh(f"git -C {REPO} apply {os.path.join(d, 'patch.diff')}")
        if ap.returncode:
            raise SystemExit("patch does not apply to /repo: " + ap.stderr)
        for c in checks:
            t0 = time.time()
            r = sh(f"cd /verif && ./check {c} --tier quick")
            viol = [l for l in r.stdout.splitlines() if l.startswith("VIOLATION")]
            why = [l for l in r.stdout.splitlines() if l.startswith("failure in") or l.startswith("regress case")]
            res[c] = {"exit": r.returncode, "violation": bool(viol), "wall_s": round(time.time() - t0, 1), "reason": (why[0][:400] if why else "")}
            print(name, c, "exit", r.returncode, (why[0][:160] if why else ""))
    finally:
        sh(f"git -C {REPO} checkout -- .")
    m["checks" + key] = res
    m["caught_by" + key] = sorted(c for c, v in res.items() if v["exit"] == 1 and v["violation"])
    save_meta(name, m)


def cmd_run_scratch(name, checks):
    """Same as `run`, but in a private copy of /repo + /verif (/root/scratch/seedrun), so that /repo
    stays untouched (needed while a background run is using /repo). Outcome stored under the same keys."""
    sys.path.insert(0, os.path.dirname(__file__))
    import mutsweep
    wname = os.environ.get("SEED_WORKER", "seed")  # several runners side by side: SEED_WORKER=seedB ...
    w = "/root/scratch/mut/w" + wname
    if not os.path.exists(w + "/verif/check") or "--fresh" in checks:
        checks = [c for c in checks if c != "--fresh"]
        mutsweep.setup_worker(wname)
    m = load_meta(name)
    d = os.path.join(ROOT, name)
    key = ""
    if "--key" in checks:
        i = checks.index("--key")
        key = "_" + checks[i + 1]
        checks = checks[:i] + checks[i + 2:]
    if not checks:
        checks = [m["property"]]
    if checks == ["all"]:
        checks = ["C%02d" % i for i in range(1, 21)]
    res = m.get("checks" + key, {})
    try:
        ap = sh(f"git apply {os.path.join(d, 'patch.diff')}", cwd=w + "/repo")
        if ap.returncode:
            raise SystemExit("patch does not apply: " + ap.stderr)
        for c in checks:
            t0 = time.time()
            r = sh("./check %s --tier quick" % c, cwd=w + "/verif")
            viol = [l for l in r.stdout.splitlines() if l.startswith("VIOLATION")]
            why = [l for l in r.stdout.splitlines() if l.startswith("failure in") or l.startswith("regress case")]
            res[c] = {"exit": r.returncode, "violation": bool(viol), "wall_s": round(time.time() - t0, 1), "reason": (why[0][:400] if why else r.stdout[-300:] if r.returncode else "")}
            print(name, c, "exit", r.returncode, (why[0][:160] if why else ""))
    finally:
        sh("git checkout -q -- .", cwd=w + "/repo")
    m["checks" + key] = res
    m["caught_by" + key] = sorted(c for c, v in res.items() if v["exit"] == 1 and v["violation"])
    m["ran_in"] = "private copy of /repo HEAD and of /verif (tools/seeded.py run-scratch): git apply patch.diff; ./check <id> --tier quick; git checkout -- ."
    save_meta(name, m)


def main():
    a = sys.argv[1:]
    if a[0] == "run-scratch":
        return cmd_run_scratch(a[1], a[2:])
    if a[0] == "import":
        cmd_import(a[1], a[2], a[3])
    elif a[0] == "verify":
        cmd_verify(a[1])
    elif a[0] == "run":
        cmd_run(a[1], a[2:])


main()
