//! Coverage-guided campaigns: builds a cargo-fuzz target (libFuzzer, ASan, debug assertions
//! and overflow checks on) and runs it in parallel worker processes on a fresh copy of the
//! committed corpus. The semantic oracle lives inside the target (it calls the same
//! function as the proptest subs); a crash artifact is re-executed in-process through the
//! plain check before it is reported.

use std::path::{Path, PathBuf};
use std::process::{Command, Stdio};

use serde::de::DeserializeOwned;
use serde::Serialize;
use serde_json::json;

use crate::engine::{CheckFn, Ctx, Obs, Sub, Tier, Verdict, verif_root};


fn find_binary(target: &str) -> Option<PathBuf> {
    let target_dir = std::env::var("CARGO_TARGET_DIR").map(PathBuf::from).unwrap_or_else(|_| verif_root().join("target"));
    for base in [target_dir, verif_root().join("harness/fuzz/target")] {
        let p = base.join("x86_64-unknown-linux-gnu/release").join(target);
        if p.is_file() {
            return Some(p);
        }
    }
    None
}

pub fn build_target(target: &str) -> Result<PathBuf, String> {
    let out = Command::new("cargo")
        .args(["+nightly", "fuzz", "build", target])
        .current_dir(verif_root().join("harness"))
        .env("CARGO_NET_OFFLINE", "true")
        // cargo-fuzz sets RUSTFLAGS itself (which hides build.rustflags of .cargo/config.toml)
        // and appends the caller's RUSTFLAGS: the hook cfg has to come from here
        .env("RUSTFLAGS", "--cfg sourcemap_verif")
        .output()
        .map_err(|e| format!("cannot run cargo fuzz: {e}"))?;
    if !out.status.success() {
        let err = String::from_utf8_lossy(&out.stderr);
        let tail: Vec<&str> = err.lines().rev().take(30).collect();
        return Err(format!("cargo fuzz build {target} failed:\n{}", tail.into_iter().rev().collect::<Vec<_>>().join("\n")));
    }
    find_binary(target).ok_or_else(|| format!("fuzz binary for {target} not found after build"))
}

fn copy_dir(from: &Path, to: &Path) -> usize {
    let _ = std::fs::create_dir_all(to);
    let mut n = 0;
    if let Ok(rd) = std::fs::read_dir(from) {
        for e in rd.flatten() {
            if e.path().is_file() && std::fs::copy(e.path(), to.join(e.file_name())).is_ok() {
                n += 1;
            }
        }
    }
    n
}

fn stat(log: &str, key: &str) -> u64 {
    log.lines()
        .filter_map(|l| l.strip_prefix(key))
        .filter_map(|v| v.trim().parse::<u64>().ok())
        .last()
        .unwrap_or(0)
}

fn last_cov(log: &str) -> (u64, u64) {
    // "#12345 DONE cov: 1234 ft: 5678 corp: 100/10Kb ..."
    let mut cov = 0;
    let mut ft = 0;
    for l in log.lines() {
        if let Some(i) = l.find(" cov: ") {
            let rest = &l[i + 6..];
            cov = rest.split_whitespace().next().and_then(|v| v.parse().ok()).unwrap_or(cov);
            if let Some(j) = rest.find("ft: ") {
                ft = rest[j + 4..].split_whitespace().next().and_then(|v| v.parse().ok()).unwrap_or(ft);
            }
        }
    }
    (cov, ft)
}

pub struct Campaign {
    pub target: &'static str,
    pub runs_per_worker: u64,
    pub workers: usize,
    pub max_len: usize,
    pub empty_corpus_workers: usize,
}

fn run_campaign<C: Serialize>(ctx: &mut Ctx, sub: &'static str, camp: &Campaign, check: CheckFn<C>, wrap: fn(Vec<u8>) -> C) {
    let bin = match build_target(camp.target) {
        Ok(b) => b,
        Err(e) => {
            ctx.inconclusive.push(format!("{sub}: {e}"));
            return;
        }
    };
    let work = verif_root().join("work").join(format!("{}-{}", camp.target, std::process::id()));
    let _ = std::fs::remove_dir_all(&work);
    let seed_corpus = verif_root().join("corpus").join(camp.target);
    let dict = verif_root().join("corpus").join(format!("{}.dict", camp.target));
    let mut children = vec![];
    for w in 0..camp.workers {
        let wdir = work.join(format!("w{w}"));
        let corpus = wdir.join("corpus");
        let artifacts = wdir.join("artifacts");
        let _ = std::fs::create_dir_all(&artifacts);
        let _ = std::fs::create_dir_all(&corpus);
        if w >= camp.empty_corpus_workers {
            copy_dir(&seed_corpus, &corpus);
        }
        let seed = (ctx.seed.wrapping_mul(1000).wrapping_add(w as u64 + 1) % 4_000_000_000).max(1);
        let mut cmd = Command::new(&bin);
        cmd.arg(&corpus)
            .arg(format!("-runs={}", camp.runs_per_worker))
            .arg(format!("-seed={seed}"))
            .arg(format!("-max_len={}", camp.max_len))
            .arg("-len_control=0")
            .arg("-timeout=120")
            .arg("-report_slow_units=60")
            .arg("-rss_limit_mb=4096")
            .arg("-print_final_stats=1")
            .arg(format!("-artifact_prefix={}/", artifacts.display()))
            .current_dir(&wdir)
            .stdout(Stdio::null());
        // stderr goes to a file: a pipe that is only drained when its worker is awaited
        // blocks the other workers once it is full
        match std::fs::File::create(wdir.join("fuzz.log")) {
            Ok(f) => {
                cmd.stderr(Stdio::from(f));
            }
            Err(_) => {
                cmd.stderr(Stdio::null());
            }
        }
        if dict.is_file() {
            cmd.arg(format!("-dict={}", dict.display()));
        }
        match cmd.spawn() {
            Ok(ch) => children.push((w, wdir, ch)),
            Err(e) => ctx.inconclusive.push(format!("{sub}: cannot start worker {w}: {e}")),
        }
    }
    let mut total_units = 0u64;
    let mut best_cov = (0u64, 0u64);
    let mut corpus_total = 0usize;
    let mut dismissed: Vec<String> = vec![];
    for (w, wdir, ch) in children {
        // keep the watchdog quiet while the campaign runs
        let stop = std::sync::Arc::new(std::sync::atomic::AtomicBool::new(false));
        let s2 = stop.clone();
        let hb = std::thread::spawn(move || {
            while !s2.load(std::sync::atomic::Ordering::Relaxed) {
                crate::engine::heartbeat();
                std::thread::sleep(std::time::Duration::from_secs(2));
            }
        });
        let mut ch = ch;
        let status = ch.wait();
        stop.store(true, std::sync::atomic::Ordering::Relaxed);
        let _ = hb.join();
        let Ok(status) = status else {
            ctx.inconclusive.push(format!("{sub}: worker {w} could not be awaited"));
            continue;
        };
        let log = std::fs::read(wdir.join("fuzz.log")).map(|b| String::from_utf8_lossy(&b).into_owned()).unwrap_or_default();
        total_units += stat(&log, "stat::number_of_executed_units:");
        let c = last_cov(&log);
        if c.0 > best_cov.0 {
            best_cov = c;
        }
        corpus_total += std::fs::read_dir(wdir.join("corpus")).map(|r| r.count()).unwrap_or(0);
        // artifacts
        let mut arts: Vec<PathBuf> = std::fs::read_dir(wdir.join("artifacts"))
            .map(|r| r.flatten().map(|e| e.path()).collect())
            .unwrap_or_default();
        arts.sort();
        for a in arts {
            let name = a.file_name().unwrap().to_string_lossy().to_string();
            let Ok(bytes) = std::fs::read(&a) else { continue };
            let keep = verif_root().join("replays").join(&ctx.id);
            let _ = std::fs::create_dir_all(&keep);
            let kept = keep.join(format!("{}-{name}", camp.target));
            let _ = std::fs::copy(&a, &kept);
            if name.starts_with("oom-") {
                ctx.inconclusive.push(format!(
                    "{sub}: libFuzzer reported {name} (memory signal, never a verdict); input kept at {}",
                    kept.display()
                ));
                continue;
            }
            if name.starts_with("timeout-") || name.starts_with("slow-unit-") {
                // a wall-clock report: on a busy machine libFuzzer's timer fires for inputs that take
                // milliseconds. Re-execute in-process: a violation is a violation; an input that now
                // completes quickly was a load artefact (noted in the evidence, nothing else); one that
                // is slow here as well stays inconclusive.
                let case = wrap(bytes);
                let mut obs = Obs::default();
                let t0 = std::time::Instant::now();
                let v = match crate::engine::guard(|| check(&case, &mut obs)) {
                    Ok(v) => v,
                    Err(p) => Verdict::Fail(format!("uncaught {p}")),
                };
                let took = t0.elapsed().as_secs_f64();
                match v {
                    Verdict::Pass | Verdict::Known(..) if took < 10.0 => {
                        dismissed.push(format!("{name} ({took:.3} s in-process)"));
                        let _ = std::fs::remove_file(&kept);
                    }
                    Verdict::Pass | Verdict::Known(..) => ctx.inconclusive.push(format!(
                        "{sub}: libFuzzer reported {name} and the input takes {took:.1} s in-process (wall-clock signal, never a verdict); input kept at {}",
                        kept.display()
                    )),
                    v => {
                        ctx.settle(sub, &case, v);
                    }
                }
                continue;
            }
            let case = wrap(bytes);
            let mut obs = Obs::default();
            let v = match crate::engine::guard(|| check(&case, &mut obs)) {
                Ok(v) => v,
                Err(p) => Verdict::Fail(format!("uncaught {p}")),
            };
            match v {
                Verdict::Pass => ctx.inconclusive.push(format!(
                    "{sub}: libFuzzer artifact {name} does not fail when re-executed in-process; input kept at {}; tail of log: {}",
                    kept.display(),
                    log.lines().rev().take(12).collect::<Vec<_>>().into_iter().rev().collect::<Vec<_>>().join(" | ")
                )),
                v => {
                    ctx.settle(sub, &case, v);
                }
            }
        }
        if !status.success() && !ctx.failed() && ctx.inconclusive.is_empty() {
            ctx.inconclusive.push(format!(
                "{sub}: worker {w} exited with {:?} without an artifact; log tail: {}",
                status.code(),
                log.lines().rev().take(8).collect::<Vec<_>>().into_iter().rev().collect::<Vec<_>>().join(" | ")
            ));
        }
    }
    ctx.bulk(sub, total_units, 0);
    ctx.extra.insert(
        format!("fuzz/{}", camp.target),
        json!({
            "engine": "libFuzzer (cargo-fuzz, ASan, debug assertions, overflow checks)",
            "workers": camp.workers,
            "workers_from_empty_corpus": camp.empty_corpus_workers,
            "runs_per_worker": camp.runs_per_worker,
            "number_of_executed_units": total_units,
            "coverage_edges": best_cov.0,
            "coverage_features": best_cov.1,
            "corpus_files_after": corpus_total,
            "max_len": camp.max_len,
            "wall_clock_reports_dismissed_after_fast_in_process_re_execution": dismissed,
        }),
    );
    let _ = std::fs::remove_dir_all(&work);
}

/// A sub-check that runs a libFuzzer campaign in the thorough tier (the quick tier replays
/// the committed corpus in-process through the property's `corpus` sub instead).
pub fn fuzz_sub<C>(name: &'static str, target: &'static str, check: CheckFn<C>, wrap: fn(Vec<u8>) -> C) -> Sub
where
    C: Serialize + DeserializeOwned + 'static,
{
    Sub {
        name,
        run: Box::new(move |ctx: &mut Ctx| {
            if ctx.failed() {
                return;
            }
            if ctx.tier == Tier::Quick && std::env::var("VERIF_FUZZ").is_err() {
                ctx.extra.insert(format!("fuzz/{target}"), json!("thorough tier only (set VERIF_FUZZ=1 to force)"));
                return;
            }
            let runs = std::env::var("VERIF_FUZZ_RUNS").ok().and_then(|s| s.parse().ok()).unwrap_or(ctx.tier.pick(20_000u64, 400_000));
            let workers = ctx.threads.max(1);
            let camp = Campaign {
                target,
                runs_per_worker: runs,
                workers,
                max_len: 4096,
                empty_corpus_workers: workers / 4,
            };
            run_campaign(ctx, name, &camp, check, wrap);
        }),
        replay: Box::new(move |v, obs| {
            let case: C = serde_json::from_value(v.clone()).map_err(|e| e.to_string())?;
            Ok(match crate::engine::guard(|| check(&case, obs)) {
                Ok(v) => v,
                Err(p) => Verdict::Fail(format!("uncaught {p}")),
            })
        }),
    }
}
