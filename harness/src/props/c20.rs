//! C20 — indexed RAM bundles are parsed exactly and malformed ones are refused
//! (crate feature `ram_bundle`).
//!
//! Two oracles:
//!
//! * `check_model` (well-formed bundles only): the harness writes a model bundle with its own
//!   writer (`Model::write`) and demands that the crate reports exactly what was written.
//! * `check_bytes` (every byte string; shared with the libFuzzer target
//!   `fuzz/fuzz_targets/c20.rs`): recognition and parsing succeed exactly when a complete
//!   12-byte header with the magic leads; afterwards every access is executed under
//!   `catch_unwind` and compared with the byte range that the (possibly corrupted) header
//!   designates, computed here with u64 arithmetic straight from the bytes.

use proptest::collection::vec;
use proptest::prelude::*;
use serde::{Deserialize, Serialize};
use sourcemap::ram_bundle::{is_ram_bundle_slice, RamBundle, RamBundleModule, RamBundleType, RAM_BUNDLE_MAGIC};

use crate::engine::{gen_sub, guard, Obs, PropertyDef, Sub, Tier, Verdict};
use crate::model::idx16;
use crate::{ensure, ensure_eq};

/// The magic number as the format documents it (kept apart from the crate's constant).
const MAGIC: u32 = 0xFB0B_D1E5;
const HEADER: u64 = 12;
const ENTRY: u64 = 8;
/// Table ids queried / iterator items walked at most (module_count may be 2^32-1).
const WALK: u64 = 64;

// ---------------------------------------------------------------------------------------
// model bundle and its writer
// ---------------------------------------------------------------------------------------

#[derive(Clone, Debug, Hash, Serialize, Deserialize)]
pub struct Model {
    /// startup code, 1..=64 bytes
    pub startup: Vec<u8>,
    /// table slots: `None` = empty slot (entry (0,0)), `Some(payload)` = present module whose
    /// length field is `payload.len() + 1` (trailing NUL)
    pub slots: Vec<Option<Vec<u8>>>,
    /// selectors of the physical order of the present modules (selection permutation:
    /// the k-th selector picks among the ids not yet placed; all zero = id order)
    pub order: Vec<u16>,
    /// padding bytes in front of the k-th physically placed module; one more for the tail
    pub gaps: Vec<u8>,
    /// the padding byte
    pub fill: u8,
}

pub struct Layout {
    pub bytes: Vec<u8>,
    /// end of the table = start of the startup code = start of the blob
    pub base: usize,
    /// end of the startup code
    pub startup_end: usize,
    /// ids of the present modules in physical order
    pub physical: Vec<usize>,
}

impl Model {
    pub fn present(&self) -> Vec<usize> {
        (0..self.slots.len()).filter(|i| self.slots[*i].is_some()).collect()
    }

    pub fn physical_order(&self) -> Vec<usize> {
        let mut rest = self.present();
        let mut out = Vec::with_capacity(rest.len());
        let mut k = 0;
        while !rest.is_empty() {
            let pick = idx16(self.order.get(k).copied().unwrap_or(0), rest.len());
            out.push(rest.remove(pick));
            k += 1;
        }
        out
    }

    fn gap(&self, k: usize) -> usize {
        self.gaps.get(k).copied().unwrap_or(0) as usize % 4
    }

    /// The independent writer: little-endian header, table, blob (startup code first, module
    /// offsets relative to the start of the blob, every module followed by a NUL).
    pub fn write(&self) -> Layout {
        let count = self.slots.len();
        let physical = self.physical_order();
        let mut blob: Vec<u8> = self.startup.clone();
        let mut entries: Vec<(u32, u32)> = vec![(0, 0); count];
        for (k, id) in physical.iter().enumerate() {
            blob.extend(std::iter::repeat(self.fill).take(self.gap(k)));
            let payload = self.slots[*id].as_ref().expect("present");
            entries[*id] = (blob.len() as u32, payload.len() as u32 + 1);
            blob.extend_from_slice(payload);
            blob.push(0);
        }
        blob.extend(std::iter::repeat(self.fill).take(self.gap(physical.len())));
        let mut bytes = Vec::with_capacity(12 + 8 * count + blob.len());
        bytes.extend_from_slice(&MAGIC.to_le_bytes());
        bytes.extend_from_slice(&(count as u32).to_le_bytes());
        bytes.extend_from_slice(&(self.startup.len() as u32).to_le_bytes());
        for (o, l) in &entries {
            bytes.extend_from_slice(&o.to_le_bytes());
            bytes.extend_from_slice(&l.to_le_bytes());
        }
        let base = bytes.len();
        bytes.extend_from_slice(&blob);
        Layout { bytes, base, startup_end: base + self.startup.len(), physical }
    }

    /// What the statement is about: non-empty startup code, and every present module lies
    /// behind it (so that no present module gets the entry (0,0)).
    fn in_domain(&self) -> bool {
        !self.startup.is_empty() && self.slots.len() <= 64 && self.startup.len() <= 4096
    }
}

#[derive(Clone, Debug, Hash, Serialize, Deserialize)]
pub enum Cut {
    /// every length 0..len of the written bundle, inside the one case
    All,
    /// one length, selected monotonically among 0..len
    At(u16),
}

#[derive(Clone, Debug, Hash, Serialize, Deserialize)]
pub enum Edge {
    Zero,
    One,
    /// buffer length + d
    Len(i8),
    /// the value that lets the range governed by the field end exactly at the buffer end, + d
    Fit(i8),
    /// written value + d
    Bump(i8),
    /// 2^31 + d
    Pow31(i8),
    /// 2^32 - 1 - d
    Max(u8),
    /// written value with its four bytes reversed (the magic read big-endian)
    Swap,
    /// written value with one bit flipped
    Flip(u8),
    Value(u32),
}

#[derive(Clone, Debug, Hash, Serialize, Deserialize)]
pub enum Case {
    WellFormed(Model),
    Truncated(Model, Cut),
    /// model, selector of the 32-bit field (header fields, then offset/length of each entry),
    /// replacement value
    FieldEdit(Model, u16, Edge),
    Bytes(Vec<u8>),
}

// ---------------------------------------------------------------------------------------
// oracle for arbitrary bytes
// ---------------------------------------------------------------------------------------

macro_rules! g {
    ($what:expr, $e:expr) => {
        match guard(|| $e) {
            Ok(v) => v,
            Err(p) => return Err(format!("{}: {}", $what, p)),
        }
    };
}

macro_rules! need {
    ($cond:expr, $($fmt:tt)+) => {
        if !($cond) {
            return Err(format!($($fmt)+));
        }
    };
}

fn le32(b: &[u8], at: u64) -> Option<u32> {
    let end = at.checked_add(4)?;
    if end > b.len() as u64 {
        return None;
    }
    let a = at as usize;
    Some(u32::from_le_bytes([b[a], b[a + 1], b[a + 2], b[a + 3]]))
}

#[derive(Clone, Copy, Debug)]
struct Header {
    count: u64,
    startup_size: u64,
    /// 12 + 8 * count: where the table ends and the blob (startup code first) begins
    base: u64,
}

fn read_header(b: &[u8]) -> Option<Header> {
    if b.len() < HEADER as usize || le32(b, 0)? != MAGIC {
        return None;
    }
    let count = le32(b, 4)? as u64;
    Some(Header { count, startup_size: le32(b, 8)? as u64, base: HEADER + ENTRY * count })
}

#[derive(Clone, Copy, Debug, PartialEq, Eq)]
enum Want {
    /// the entry reads (0,0)
    Empty,
    /// must be an error, for the given reason
    Refuse(&'static str),
    /// the payload (length field minus the trailing NUL) is `start..end`, inside the buffer
    Range(u64, u64),
}

/// What the bytes themselves designate for table id `id`.
fn want_module(b: &[u8], h: &Header, id: u64) -> Want {
    if id >= h.count {
        return Want::Refuse("the id is past the table");
    }
    let at = HEADER + ENTRY * id; // id < 2^32
    let (Some(off), Some(length)) = (le32(b, at), le32(b, at + 4)) else {
        return Want::Refuse("the table entry is not (completely) inside the buffer");
    };
    if off == 0 && length == 0 {
        return Want::Empty;
    }
    if length == 0 {
        return Want::Refuse("zero length with non-zero offset");
    }
    let start = h.base + off as u64;
    let end = start + length as u64 - 1;
    if end > b.len() as u64 {
        return Want::Refuse("the designated range leaves the buffer");
    }
    Want::Range(start, end)
}

fn want_startup(b: &[u8], h: &Header) -> Want {
    let end = h.base + h.startup_size;
    if end > b.len() as u64 {
        Want::Refuse("the startup code range leaves the buffer")
    } else {
        Want::Range(h.base, end)
    }
}

#[derive(Default, Debug)]
pub struct Seen {
    pub recognised: bool,
    pub short: bool,
    pub startup_ok: bool,
    /// modules returned with exactly the designated bytes
    pub some: u32,
    /// empty slots reported as `Ok(None)`
    pub none: u32,
    /// errors demanded because a designated range (startup code or a module of a walked
    /// table id) leaves the buffer or the entry cannot be read
    pub crossing: u32,
    /// errors demanded for zero length with non-zero offset
    pub zero_length: u32,
    /// `Err` although the designated range lies inside the buffer (tolerated for malformed
    /// input: the statement only demands "an error instead of a panic / an outside read")
    pub in_buffer_err: u32,
    /// module returned although its trailing NUL is missing or outside the buffer
    pub without_nul: u32,
    /// iterator items walked
    pub iterated: u32,
    pub huge_count: bool,
}

/// Equal to the designated bytes, and (unless empty) a view into the buffer itself.
fn same_slice(got: &[u8], b: &[u8], start: u64, end: u64) -> bool {
    let inside = got.is_empty() || {
        let (lo, hi) = (b.as_ptr() as usize, b.as_ptr() as usize + b.len());
        let p = got.as_ptr() as usize;
        lo <= p && p + got.len() <= hi
    };
    got == &b[start as usize..end as usize] && inside
}

fn compare_module(
    b: &[u8],
    what: &str,
    id: u64,
    want: Want,
    got: &Result<Option<RamBundleModule<'_>>, sourcemap::Error>,
    strict: bool,
    seen: &mut Seen,
) -> Result<(), String> {
    match (want, got) {
        (Want::Refuse(why), Ok(r)) => Err(format!(
            "{what} = Ok({}) although {why}",
            match r {
                Some(m) => format!("module id {} with {} bytes", m.id(), m.data().len()),
                None => "None".into(),
            }
        )),
        (Want::Refuse(why), Err(_)) => {
            if why.starts_with("zero length") {
                seen.zero_length += 1;
            } else if !why.starts_with("the id is past") {
                seen.crossing += 1;
            }
            Ok(())
        }
        (Want::Empty, Ok(None)) => {
            seen.none += 1;
            Ok(())
        }
        (Want::Empty, Ok(Some(m))) => Err(format!("{what} = module with {} bytes although the entry reads (0,0)", m.data().len())),
        (Want::Empty, Err(e)) => Err(format!("{what} = Err({e}) although the entry reads (0,0) (an empty slot)")),
        (Want::Range(s, e), Ok(None)) => Err(format!("{what} = Ok(None) although the entry is not (0,0) and designates bytes {s}..{e}")),
        (Want::Range(s, e), Ok(Some(m))) => {
            need!(m.id() as u64 == id, "{what} returned a module with id {} instead of {id}", m.id());
            need!(
                same_slice(m.data(), b, s, e),
                "{what} returned {} bytes {:?} but the header designates bytes {s}..{e} of the buffer = {:?}",
                m.data().len(),
                m.data(),
                &b[s as usize..e as usize]
            );
            let _ = g!(format!("{what}.source_view()"), m.source_view().is_ok());
            seen.some += 1;
            if b.get(e as usize) != Some(&0) {
                seen.without_nul += 1;
            }
            Ok(())
        }
        (Want::Range(s, e), Err(err)) => {
            need!(!strict, "{what} = Err({err}) although the designated bytes {s}..{e} lie inside the {}-byte buffer", b.len());
            seen.in_buffer_err += 1;
            Ok(())
        }
    }
}

/// Everything the second sentence of C20 demands of one byte string. `strict` additionally
/// demands `Ok` whenever the designated range lies inside the buffer (used for well-formed
/// bundles only).
pub fn check_bytes(b: &[u8], strict: bool) -> Result<Seen, String> {
    let mut seen = Seen::default();
    let header = read_header(b);
    seen.recognised = header.is_some();
    seen.short = b.len() < HEADER as usize;

    let is = g!("is_ram_bundle_slice", is_ram_bundle_slice(b));
    need!(
        is == header.is_some(),
        "is_ram_bundle_slice = {is} for {} bytes whose leading magic field is {:08x?}",
        b.len(),
        le32(b, 0)
    );
    let parsed = g!("parse_indexed_from_slice", RamBundle::parse_indexed_from_slice(b));
    let (bundle, h) = match (parsed, header) {
        (Err(_), None) => {
            need!(g!("parse_indexed_from_vec", RamBundle::parse_indexed_from_vec(b.to_vec())).is_err(), "parse_indexed_from_vec = Ok on bytes parse_indexed_from_slice refuses");
            return Ok(seen);
        }
        (Ok(_), None) => {
            return Err(format!(
                "parse_indexed_from_slice = Ok for {} bytes (leading magic field {:08x?}) without a complete header with the magic",
                b.len(),
                le32(b, 0)
            ))
        }
        (Err(e), Some(_)) => return Err(format!("parse_indexed_from_slice = Err({e}) although a complete 12-byte header with the magic leads")),
        (Ok(bundle), Some(h)) => (bundle, h),
    };
    seen.huge_count = h.count > (1 << 28);
    // the owning entry point parses the same bytes the same way
    if b.len() <= 4096 {
        let owned = g!("parse_indexed_from_vec", RamBundle::parse_indexed_from_vec(b.to_vec()));
        match owned {
            Err(e) => return Err(format!("parse_indexed_from_vec = Err({e}) on bytes parse_indexed_from_slice accepts")),
            Ok(o) => {
                need!(g!("module_count (vec)", o.module_count()) as u64 == h.count, "parse_indexed_from_vec: module_count differs from the header field");
                let a = g!("startup_code (vec)", o.startup_code().map(|c| c.to_vec()).map_err(|e| e.to_string()));
                let c = g!("startup_code", bundle.startup_code().map(|c| c.to_vec()).map_err(|e| e.to_string()));
                need!(a.is_ok() == c.is_ok() && (a.is_err() || a == c), "parse_indexed_from_vec: startup_code() differs from the slice entry point: {a:?} vs {c:?}");
                for id in (0..h.count.min(16)).chain([h.count, h.count + 1]) {
                    let x = g!("get_module (vec)", o.get_module(id as usize).map(|m| m.map(|m| m.data().to_vec())).map_err(|e| e.to_string()));
                    let y = g!("get_module", bundle.get_module(id as usize).map(|m| m.map(|m| m.data().to_vec())).map_err(|e| e.to_string()));
                    need!(x.is_ok() == y.is_ok() && (x.is_err() || x == y), "parse_indexed_from_vec: get_module({id}) differs from the slice entry point: {x:?} vs {y:?}");
                }
            }
        }
    } else if g!("parse_indexed_from_vec", RamBundle::parse_indexed_from_vec(b.to_vec())).is_err() {
        return Err("parse_indexed_from_vec = Err on bytes parse_indexed_from_slice accepts".into());
    }

    need!(g!("bundle_type", bundle.bundle_type()) == RamBundleType::Indexed, "bundle_type() is not Indexed");
    let count = g!("module_count", bundle.module_count());
    need!(count as u64 == h.count, "module_count() = {count}, the header field reads {}", h.count);

    // startup code
    let got = g!("startup_code", bundle.startup_code());
    match (want_startup(b, &h), got) {
        (Want::Range(s, e), Ok(code)) => {
            need!(
                same_slice(code, b, s, e),
                "startup_code() returned {} bytes {:?} but the header designates bytes {s}..{e} = {:?}",
                code.len(),
                code,
                &b[s as usize..e as usize]
            );
            seen.startup_ok = true;
        }
        (Want::Range(s, e), Err(err)) => {
            need!(!strict, "startup_code() = Err({err}) although the designated bytes {s}..{e} lie inside the {}-byte buffer", b.len());
            seen.in_buffer_err += 1;
        }
        (Want::Refuse(why), Ok(code)) => return Err(format!("startup_code() = Ok({} bytes) although {why} (base {}, size {}, buffer {})", code.len(), h.base, h.startup_size, b.len())),
        (Want::Refuse(_), Err(_)) => seen.crossing += 1,
        (Want::Empty, _) => unreachable!(),
    }

    // get_module for the (first) table ids and ids past the table
    // ids past the table include ones whose low 32 (16, 8) bits alone would point into it
    let ids = (0..h.count.min(WALK)).chain([
        h.count,
        h.count + 1,
        usize::MAX as u64,
        1u64 << 32,
        (1u64 << 32) + 1,
        (3u64 << 32) + h.count.saturating_sub(1),
        h.count + (1u64 << 16),
        h.count.max(1) - 1 + (1u64 << 32),
    ]);
    for id in ids {
        let what = format!("get_module({id})");
        let got = g!(what, bundle.get_module(id as usize));
        compare_module(b, &what, id, want_module(b, &h, id), &got, strict, &mut seen)?;
    }

    // bounded walk of the iterator: one item for every id whose entry is not (0,0)
    let mut it = g!("iter_modules", bundle.iter_modules());
    let mut id = 0u64;
    loop {
        // empty slots end with the buffer at the latest: an unreadable entry is not Empty
        while id < h.count && want_module(b, &h, id) == Want::Empty {
            id += 1;
        }
        if seen.iterated as u64 >= WALK {
            break;
        }
        let item = g!(format!("iter_modules() item #{}", seen.iterated), it.next());
        if id >= h.count {
            need!(item.is_none(), "iter_modules() yields a further item after the last non-empty table id (module_count {})", h.count);
            break;
        }
        let Some(item) = item else {
            return Err(format!("iter_modules() ends before table id {id} whose entry is not (0,0) (module_count {})", h.count));
        };
        let what = format!("iter_modules() item #{} (table id {id})", seen.iterated);
        let before = (seen.crossing, seen.zero_length);
        compare_module(b, &what, id, want_module(b, &h, id), &item.map(Some), strict, &mut seen)?;
        // ids below WALK were already counted through get_module
        if id < WALK {
            (seen.crossing, seen.zero_length) = before;
        }
        seen.iterated += 1;
        id += 1;
    }
    Ok(seen)
}

/// Entry point of the libFuzzer target: aborts on a violation.
pub fn fuzz_one(data: &[u8]) {
    if let Err(e) = check_bytes(data, false) {
        eprintln!("C20 violation: {e}");
        std::process::abort();
    }
}

// ---------------------------------------------------------------------------------------
// oracle for well-formed bundles (first sentence of C20)
// ---------------------------------------------------------------------------------------

fn check_model(m: &Model, lay: &Layout, obs: &mut Obs) -> Verdict {
    let b = &lay.bytes[..];
    let count = m.slots.len();
    ensure!(crate::engine::guard(|| is_ram_bundle_slice(b)) == Ok(true), "is_ram_bundle_slice is not true for a well-formed bundle");
    ensure_eq!(RAM_BUNDLE_MAGIC, MAGIC, "the crate's magic constant");
    let bundle = match guard(|| RamBundle::parse_indexed_from_slice(b)) {
        Ok(Ok(x)) => x,
        Ok(Err(e)) => return Verdict::Fail(format!("a well-formed bundle is refused: {e}")),
        Err(p) => return Verdict::Fail(format!("parse_indexed_from_slice: {p}")),
    };
    match guard(|| bundle.module_count()) {
        Ok(n) => ensure_eq!(n, count, "module_count()"),
        Err(p) => return Verdict::Fail(format!("module_count: {p}")),
    }
    match guard(|| bundle.startup_code()) {
        Ok(Ok(code)) => ensure_eq!(code, &m.startup[..], "startup_code()"),
        Ok(Err(e)) => return Verdict::Fail(format!("startup_code() = Err({e}) on a well-formed bundle")),
        Err(p) => return Verdict::Fail(format!("startup_code: {p}")),
    }
    for (i, slot) in m.slots.iter().enumerate() {
        let got = match guard(|| bundle.get_module(i)) {
            Ok(g) => g,
            Err(p) => return Verdict::Fail(format!("get_module({i}): {p}")),
        };
        match (slot, got) {
            (Some(payload), Ok(Some(module))) => {
                ensure_eq!(module.id(), i, "id of get_module({i})");
                ensure_eq!(module.data(), &payload[..], "data of get_module({i}) (written without its trailing NUL)");
            }
            (None, Ok(None)) => {}
            (Some(p), Ok(None)) => return Verdict::Fail(format!("get_module({i}) = Ok(None) for a present module of {} bytes", p.len())),
            (None, Ok(Some(module))) => return Verdict::Fail(format!("get_module({i}) = module with {:?} for an empty slot", module.data())),
            (_, Err(e)) => return Verdict::Fail(format!("get_module({i}) = Err({e}) inside the table of a well-formed bundle")),
        }
    }
    for i in [count, count + 1, usize::MAX, 1usize << 32, (1usize << 32) + count.saturating_sub(1), (5usize << 32) + 1, count + (1usize << 16), count + 256] {
        match guard(|| bundle.get_module(i).map(|m| m.map(|m| m.data().len()))) {
            Ok(Err(_)) => {}
            Ok(Ok(r)) => return Verdict::Fail(format!("get_module({i}) = Ok({r:?}) although the table has {count} slots")),
            Err(p) => return Verdict::Fail(format!("get_module({i}): {p}")),
        }
    }
    // iterator: exactly the present modules in id order (bounded for safety)
    let walked = guard(|| {
        bundle
            .iter_modules()
            .take(count + 2)
            .map(|r| r.map(|m| (m.id(), m.data().to_vec())).map_err(|e| e.to_string()))
            .collect::<Vec<_>>()
    });
    let walked = match walked {
        Ok(w) => w,
        Err(p) => return Verdict::Fail(format!("iter_modules: {p}")),
    };
    let want: Vec<Result<(usize, Vec<u8>), String>> = m.present().into_iter().map(|i| Ok((i, m.slots[i].clone().expect("present")))).collect();
    ensure_eq!(walked, want, "iter_modules() against the present modules in id order");
    // ... however the iterator is driven (nth / skip / step_by / count / last / size_hint)
    if let Err(e) = super::common::iter_conformance(
        "iter_modules()",
        || bundle.iter_modules(),
        |r| r.map(|m| (m.id(), m.data().to_vec())).map_err(|e| e.to_string()),
        &want,
    ) {
        return Verdict::Fail(e);
    }

    // the generic oracle must agree as well, with every in-buffer range served
    match check_bytes(b, true) {
        Ok(seen) => {
            ensure!(seen.startup_ok && seen.in_buffer_err == 0 && seen.crossing == 0 && seen.without_nul == 0, "generic oracle on a well-formed bundle: {seen:?}");
            ensure_eq!(seen.some as usize, 2 * m.present().len(), "modules seen by the generic oracle (get_module + iterator)");
        }
        Err(e) => return Verdict::Fail(format!("generic oracle on a well-formed bundle: {e}")),
    }
    obs.inner_evals += 1;

    let present = m.present();
    let shuffled = lay.physical != present;
    let empties = count - present.len();
    obs.class_if(count == 0, "no-table");
    obs.class_if(count > 0 && present.is_empty(), "only-empty-slots");
    obs.class_if(empties > 0, "empty-slot");
    obs.class_if(m.slots.first().map(|s| s.is_none()).unwrap_or(false), "empty-slot-first");
    obs.class_if(count > 0 && m.slots.last().map(|s| s.is_none()).unwrap_or(false), "empty-slot-last");
    obs.class_if(shuffled, "shuffled-physical-order");
    obs.class_if(m.slots.iter().flatten().any(|p| std::str::from_utf8(p).is_err()), "non-utf8");
    obs.class_if(m.slots.iter().flatten().any(|p| p.contains(&0)), "nul-in-payload");
    obs.class_if(m.slots.iter().flatten().any(|p| p.is_empty()), "length-1-module");
    obs.class_if((0..=present.len()).any(|k| m.gap(k) > 0), "gaps");
    obs.class_if(m.startup.len() == 1, "startup-1-byte");
    obs.class_if(m.startup.len() == 64, "startup-64-bytes");
    obs.class_if(count == 8, "8-slots");
    obs.class_if(count > 8, ">8-slots");
    if present.len() >= 2 && empties >= 1 && shuffled {
        obs.nontrivial();
    }
    Verdict::Pass
}

// ---------------------------------------------------------------------------------------
// corruptions
// ---------------------------------------------------------------------------------------

fn cut_class(lay: &Layout, len: usize) -> &'static str {
    if len < HEADER as usize {
        "cut-in-header"
    } else if len < lay.base {
        "cut-in-table"
    } else if len < lay.startup_end {
        "cut-in-startup"
    } else {
        "cut-in-blob"
    }
}

fn check_truncated(m: &Model, cut: &Cut, obs: &mut Obs) -> Verdict {
    let lay = m.write();
    let full = lay.bytes.len();
    let lens: Vec<usize> = match cut {
        Cut::All => (0..full).collect(),
        Cut::At(sel) => vec![idx16(*sel, full)],
    };
    let mut mixed = false;
    for len in lens {
        // a fresh allocation of exactly `len` bytes
        let b = lay.bytes[..len].to_vec();
        let seen = match check_bytes(&b, false) {
            Ok(s) => s,
            Err(e) => return Verdict::Fail(format!("bundle of {full} bytes truncated to {len} ({}): {e}", cut_class(&lay, len))),
        };
        ensure_eq!(seen.recognised, len >= 12, "recognition of the bundle truncated to {len} bytes");
        obs.inner_evals += 1;
        obs.class(cut_class(&lay, len));
        obs.class_if(seen.without_nul > 0, "module-served-without-its-NUL");
        obs.class_if(seen.in_buffer_err > 0, "in-buffer-range-refused");
        obs.class_if(seen.recognised && !seen.startup_ok, "startup-refused");
        if seen.some > 0 && seen.crossing > 0 {
            mixed = true;
        }
    }
    obs.class_if(mixed, "some-modules-served-others-refused");
    if mixed {
        obs.nontrivial();
    }
    Verdict::Pass
}

fn field_class(f: usize) -> &'static str {
    match f {
        0 => "edit-magic",
        1 => "edit-count",
        2 => "edit-startup_size",
        f if (f - 3) % 2 == 0 => "edit-entry_offset",
        _ => "edit-entry_length",
    }
}

fn edge_class(e: &Edge) -> &'static str {
    match e {
        Edge::Zero => "value-0",
        Edge::One => "value-1",
        Edge::Len(_) => "value-len±1",
        Edge::Fit(_) => "value-fit±1",
        Edge::Bump(_) => "value-written±1",
        Edge::Pow31(_) => "value-2^31±1",
        Edge::Max(_) => "value-2^32-1",
        Edge::Swap => "value-byteswapped",
        Edge::Flip(_) => "value-bitflip",
        Edge::Value(_) => "value-arbitrary",
    }
}

/// The replacement value for field `f` of the written bundle.
fn edge_value(lay: &Layout, f: usize, e: &Edge) -> u32 {
    let b = &lay.bytes;
    let old = le32(b, 4 * f as u64).expect("field inside the table");
    let len = b.len() as i64;
    let base = lay.base as i64;
    match e {
        Edge::Zero => 0,
        Edge::One => 1,
        Edge::Len(d) => (len + *d as i64) as u32,
        Edge::Fit(d) => {
            let fit = match f {
                0 => MAGIC as i64,
                1 => (len - HEADER as i64) / ENTRY as i64,
                2 => len - base,
                f if (f - 3) % 2 == 0 => {
                    let length = le32(b, 4 * (f as u64 + 1)).expect("length field").max(1) as i64;
                    len - base - (length - 1)
                }
                f => {
                    let off = le32(b, 4 * (f as u64 - 1)).expect("offset field") as i64;
                    len - base - off + 1
                }
            };
            (fit + *d as i64) as u32
        }
        Edge::Bump(d) => (old as i64 + *d as i64) as u32,
        Edge::Pow31(d) => ((1i64 << 31) + *d as i64) as u32,
        Edge::Max(d) => u32::MAX - *d as u32,
        Edge::Swap => old.swap_bytes(),
        Edge::Flip(k) => old ^ (1 << (k % 32)),
        Edge::Value(v) => *v,
    }
}

fn check_field_edit(m: &Model, sel: u16, e: &Edge, obs: &mut Obs) -> Verdict {
    let lay = m.write();
    let fields = 3 + 2 * m.slots.len();
    let f = idx16(sel, fields);
    let old = le32(&lay.bytes, 4 * f as u64).expect("field");
    let new = edge_value(&lay, f, e);
    let mut b = lay.bytes.clone();
    b[4 * f..4 * f + 4].copy_from_slice(&new.to_le_bytes());
    let seen = match check_bytes(&b, false) {
        Ok(s) => s,
        Err(err) => return Verdict::Fail(format!("{} (32-bit field #{f}) {old} -> {new} in a bundle of {} bytes: {err}", field_class(f), b.len())),
    };
    obs.inner_evals += 1;
    obs.class(field_class(f));
    obs.class(edge_class(e));
    if f == 0 {
        ensure_eq!(seen.recognised, new == MAGIC, "recognition after the magic was replaced by {new:#010x}");
        obs.class_if(new != MAGIC, "wrong-magic");
        obs.class_if(new == MAGIC.swap_bytes(), "magic-big-endian");
    } else {
        ensure!(seen.recognised, "not recognised although the magic is untouched");
    }
    if new == old {
        obs.class("identity-edit");
        return Verdict::Pass;
    }
    let entry = f >= 3;
    let slot_empty = entry && m.slots[(f - 3) / 2].is_none();
    obs.class_if(slot_empty, "edit-entry-of-empty-slot");
    obs.class_if(entry && !slot_empty && (f - 3) % 2 == 1 && new == 0, "zero-length-nonzero-offset");
    obs.class_if(entry && !slot_empty && (f - 3) % 2 == 0 && new == 0, "zero-offset-nonzero-length");
    obs.class_if(seen.zero_length > 0, "refused:zero-length");
    obs.class_if(seen.crossing > 0, "refused:range-leaves-buffer");
    obs.class_if(seen.huge_count, "count>2^28");
    obs.class_if(seen.recognised && seen.crossing == 0 && seen.zero_length == 0, "edit-stays-inside-buffer");
    obs.class_if(seen.in_buffer_err > 0, "in-buffer-range-refused");
    obs.class_if(seen.without_nul > 0, "module-served-without-its-NUL");
    obs.class_if(seen.iterated as u64 == WALK, "iterator-walk-capped");
    if seen.recognised && seen.crossing > 0 {
        obs.nontrivial();
    }
    Verdict::Pass
}

fn check_raw(b: &[u8], obs: &mut Obs) -> Verdict {
    // exact-size allocation
    let b = b.to_vec();
    let seen = match check_bytes(&b, false) {
        Ok(s) => s,
        Err(e) => return Verdict::Fail(format!("{} arbitrary bytes {:02x?}: {e}", b.len(), &b[..b.len().min(160)])),
    };
    obs.class(if seen.recognised {
        "recognised"
    } else if seen.short {
        "refused:short"
    } else {
        "refused:magic"
    });
    obs.class_if(!seen.recognised && b.len() >= 4 && le32(&b, 0) == Some(MAGIC), "magic-but-incomplete-header");
    obs.class_if(seen.startup_ok, "startup-served");
    obs.class_if(seen.some > 0, "module-served");
    obs.class_if(seen.none > 0, "empty-slot");
    obs.class_if(seen.crossing > 0, "refused:range-leaves-buffer");
    obs.class_if(seen.zero_length > 0, "refused:zero-length");
    obs.class_if(seen.huge_count, "count>2^28");
    obs.class_if(seen.in_buffer_err > 0, "in-buffer-range-refused");
    obs.class_if(seen.without_nul > 0, "module-served-without-its-NUL");
    obs.class_if(seen.iterated as u64 == WALK, "iterator-walk-capped");
    if seen.recognised && seen.some > 0 && seen.crossing > 0 {
        obs.nontrivial();
    }
    Verdict::Pass
}

fn check(case: &Case, obs: &mut Obs) -> Verdict {
    let model = match case {
        Case::WellFormed(m) | Case::Truncated(m, _) | Case::FieldEdit(m, _, _) => Some(m),
        Case::Bytes(_) => None,
    };
    if let Some(m) = model {
        ensure!(m.in_domain(), "replay case outside the domain (empty startup code or oversized model)");
    }
    match case {
        Case::WellFormed(m) => check_model(m, &m.write(), obs),
        Case::Truncated(m, cut) => check_truncated(m, cut, obs),
        Case::FieldEdit(m, sel, e) => check_field_edit(m, *sel, e, obs),
        Case::Bytes(b) => check_raw(b, obs),
    }
}

// ---------------------------------------------------------------------------------------
// generators
// ---------------------------------------------------------------------------------------

fn payload() -> BoxedStrategy<Vec<u8>> {
    prop_oneof![
        2 => Just(vec![]),
        4 => vec(any::<u8>(), 0..=40),
        2 => "[ -~]{0,40}".prop_map(String::into_bytes),
        1 => "(__d\\(function\\(\\)\\{\\}\\);|é|\u{1f600}|\n){0,5}".prop_map(|s| { let mut b = s.into_bytes(); b.truncate(40); b }),
        1 => vec(prop_oneof![Just(0u8), Just(0xffu8), Just(0x80u8), Just(0xc3u8), any::<u8>()], 1..=40),
        // bytes that mean something to text tooling at the start of a module: byte order marks, a
        // shebang, a NUL - module data is opaque bytes
        2 => (proptest::sample::select(vec![vec![0xEFu8, 0xBB, 0xBF], vec![0xFF, 0xFE], vec![0xFE, 0xFF], vec![0x23, 0x21], vec![0], vec![0xEF, 0xBB]]), vec(any::<u8>(), 0..=20))
            .prop_map(|(mut pre, rest)| { pre.extend(rest); pre }),
    ]
    .boxed()
}

fn model_strategy() -> BoxedStrategy<Model> {
    (
        prop_oneof![
            1 => vec(any::<u8>(), 1..=1),
            6 => vec(any::<u8>(), 1..=64),
            1 => vec(any::<u8>(), 64..=64),
            2 => "[ -~]{1,64}".prop_map(String::into_bytes),
            // startup code that reads like a table entry (or an empty slot) to whoever looks
            // one entry past the table
            2 => (0u32..48, 0u32..24, vec(any::<u8>(), 0..=56)).prop_map(|(o, l, mut rest)| {
                let mut b = o.to_le_bytes().to_vec();
                b.extend_from_slice(&l.to_le_bytes());
                b.append(&mut rest);
                b
            }),
        ],
        prop_oneof![
            10 => vec(proptest::option::weighted(0.7, payload()), 0..=8),
            1 => vec(proptest::option::weighted(0.6, payload()), 9..=48),
        ],
        prop_oneof![1 => Just(vec![0u16; 8]), 4 => vec(any::<u16>(), 8), 1 => vec(any::<u16>(), 48)],
        prop_oneof![2 => Just(vec![0u8; 9]), 1 => vec(0u8..4, 9)],
        prop_oneof![Just(0u8), Just(0xaau8), any::<u8>()],
    )
        .prop_map(|(startup, slots, order, gaps, fill)| Model { startup, slots, order, gaps, fill })
        .boxed()
}

fn wellformed(_t: Tier) -> BoxedStrategy<Case> {
    model_strategy().prop_map(Case::WellFormed).boxed()
}

fn truncations(_t: Tier) -> BoxedStrategy<Case> {
    (model_strategy(), prop_oneof![15 => Just(Cut::All), 1 => any::<u16>().prop_map(Cut::At)])
        .prop_map(|(m, c)| Case::Truncated(m, c))
        .boxed()
}

fn edge_strategy() -> BoxedStrategy<Edge> {
    prop_oneof![
        2 => Just(Edge::Zero),
        2 => Just(Edge::One),
        3 => (-1i8..=1).prop_map(Edge::Len),
        4 => (-1i8..=1).prop_map(Edge::Fit),
        2 => prop_oneof![Just(-1i8), Just(1i8)].prop_map(Edge::Bump),
        3 => (-1i8..=1).prop_map(Edge::Pow31),
        3 => (0u8..2).prop_map(Edge::Max),
        1 => Just(Edge::Swap),
        1 => (0u8..32).prop_map(Edge::Flip),
        1 => (0u32..400).prop_map(Edge::Value),
        1 => any::<u32>().prop_map(Edge::Value),
    ]
    .boxed()
}

fn field_edits(_t: Tier) -> BoxedStrategy<Case> {
    (model_strategy(), any::<u16>(), edge_strategy())
        .prop_map(|(m, f, e)| Case::FieldEdit(m, f, e))
        .boxed()
}

fn arbitrary(_t: Tier) -> BoxedStrategy<Case> {
    let small = || prop_oneof![6 => 0u32..12, 2 => 0u32..120, 1 => any::<u32>()];
    prop_oneof![
        // random bytes
        4 => vec(any::<u8>(), 0..96),
        // the magic, then random bytes (0..8 more bytes = incomplete header)
        1 => vec(any::<u8>(), 0..8).prop_map(|mut v| { let mut b = MAGIC.to_le_bytes().to_vec(); b.append(&mut v); b }),
        1 => vec(any::<u8>(), 8..96).prop_map(|mut v| { let mut b = MAGIC.to_le_bytes().to_vec(); b.append(&mut v); b }),
        // the magic, small header fields, small table fields, random blob
        2 => (0u32..7, small(), vec((small(), small()), 0..7), vec(any::<u8>(), 0..96)).prop_map(|(count, ssize, entries, mut blob)| {
            let mut b = MAGIC.to_le_bytes().to_vec();
            b.extend_from_slice(&count.to_le_bytes());
            b.extend_from_slice(&ssize.to_le_bytes());
            for (o, l) in entries {
                b.extend_from_slice(&o.to_le_bytes());
                b.extend_from_slice(&l.to_le_bytes());
            }
            b.append(&mut blob);
            b
        }),
    ]
    .prop_map(Case::Bytes)
    .boxed()
}

pub fn subs() -> Vec<Sub> {
    vec![
        gen_sub("wellformed", wellformed, |t| t.pick(20_000, 100_000), check),
        gen_sub("truncations", truncations, |t| t.pick(8_000, 40_000), check),
        gen_sub("field_edits", field_edits, |t| t.pick(100_000, 400_000), check),
        gen_sub("arbitrary", arbitrary, |t| t.pick(60_000, 400_000), check),
        super::fuzzrun::fuzz_sub::<Case>("fuzz", "c20", check, Case::Bytes),
    ]
}

pub const DEF: PropertyDef = PropertyDef {
    id: "C20",
    rule: "wellformed: model bundles (0..8, occasionally 9..48 table slots, empty slots anywhere, startup code 1..64 bytes, payloads 0..40 arbitrary bytes, \
           shuffled physical order, optional padding) written by the harness' own writer; non-trivial = >= 2 present modules, >= 1 empty slot \
           and physical order != id order. truncations: every proper prefix of such a bundle inside one case (inner evaluations); non-trivial = \
           some prefix where one module is still served and another designated range is cut off. field_edits: one 32-bit header/table field \
           replaced by 0, 1, len(+-1), fit-to-buffer-end(+-1), written(+-1), 2^31(+-1), 2^32-1(-1), byte-swapped, one bit flipped or an arbitrary \
           value; non-trivial = the edit makes a designated range (startup code or a module of a walked table id) leave the buffer. arbitrary: \
           random bytes, half of them led by the magic; non-trivial = recognised, one module served and one designated range refused. \
           thorough: libFuzzer campaign (ASan) with the byte-string oracle in the target. Also: iterator-protocol conformance of iter_modules() and the owning entry point parse_indexed_from_vec compared with the slice one",
    assumptions: &[
        "the payload range designated by an entry is offset .. offset + length - 1 relative to 12 + 8 x module_count (the trailing NUL itself is not required to be present or inside the buffer; such cases are counted in the class module-served-without-its-NUL)",
        "for byte strings that are not well-formed bundles an Err is accepted even when the designated range lies inside the buffer (e.g. an empty range that starts exactly at the buffer end); only well-formed bundles must be served completely",
        "get_module is queried for table ids below min(module_count, 64) and for module_count, module_count + 1, usize::MAX and ids of the form m*2^32 + k, count + 2^16, count + 256; the iterator is walked for at most 64 items",
        "64-bit usize (12 + 8 x 2^32 does not overflow)",
    ],
    subs,
};
