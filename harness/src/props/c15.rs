//! C15 — `SourceView` lines and UTF-16 slices match the text exactly, in any access order.
//!
//! One case = one text + a history of requests on ONE view. Every request is answered from a
//! reference (char-scanning splitter, unit-range slicer) that knows nothing about the history,
//! so any dependence of the lazily built line index on the order of requests shows up as a
//! difference. A panic anywhere is a failure.

use std::sync::Arc;

use proptest::collection::vec;
use proptest::prelude::*;
use serde::{Deserialize, Serialize};
use sourcemap::SourceView;

use crate::engine::{custom_sub, gen_sub, guard, heartbeat, Ctx, Obs, PropertyDef, Sub, Tier, Verdict};
use crate::model::idx16;

/// Development switch: when `true`, slice triples with `col + span > u32::MAX` are skipped so
/// that the rest of the space can be looked at while the `col + span` overflow in
/// `get_line_slice` is still present. Must be `false` in every delivered/committed state.
const SKIP_U32_SUM_OVERFLOW: bool = false;

// ---------------------------------------------------------------------------------------
// reference
// ---------------------------------------------------------------------------------------

/// Reference splitter: scans chars; `\r\n`, `\n` and a lone `\r` terminate a line; a trailing
/// terminator yields a final empty line; the empty text has exactly one (empty) line.
pub fn ref_lines(text: &str) -> Vec<&str> {
    let mut out = vec![];
    let mut start = 0usize;
    let mut it = text.char_indices().peekable();
    while let Some((i, c)) = it.next() {
        match c {
            '\n' => {
                out.push(&text[start..i]);
                start = i + 1;
            }
            '\r' => {
                out.push(&text[start..i]);
                start = i + 1;
                if let Some(&(j, '\n')) = it.peek() {
                    it.next();
                    start = j + 1;
                }
            }
            _ => {}
        }
    }
    out.push(&text[start..]);
    out
}

/// Length of a line in UTF-16 code units.
pub fn len16(line: &str) -> u64 {
    line.chars().map(|c| c.len_utf16() as u64).sum()
}

#[derive(Clone, Debug, PartialEq, Eq)]
pub enum RefSlice {
    /// the line is shorter than `col + span` units
    Nothing,
    /// in range, `col` on a character boundary: exactly these characters
    Exactly(String),
    /// in range, `col` strictly inside a surrogate pair: the statement does not say which half
    /// wins at the start (accepted: the slice with and the slice without that pair)
    InsidePair,
}

/// Reference slicer over UTF-16 unit ranges (all arithmetic in `u64`).
pub fn ref_slice(line: &str, col: u32, span: u32) -> RefSlice {
    let from = u64::from(col);
    let to = from + u64::from(span);
    if to > len16(line) {
        return RefSlice::Nothing;
    }
    let mut out = String::new();
    let mut at = 0u64;
    for ch in line.chars() {
        let (s, e) = (at, at + ch.len_utf16() as u64);
        at = e;
        if s < from && from < e {
            return RefSlice::InsidePair;
        }
        // [s, e) and [from, to) share a unit (a pair cut by `to` is taken whole)
        if s.max(from) < e.min(to) {
            out.push(ch);
        }
    }
    RefSlice::Exactly(out)
}

// ---------------------------------------------------------------------------------------
// cases
// ---------------------------------------------------------------------------------------

#[derive(Clone, Debug, PartialEq, Eq, Hash, Serialize, Deserialize)]
pub enum Req {
    GetLine(u32),
    LineCount,
    /// `lines()` collected to the end
    LinesIter,
    /// `get_line_slice(line, col, span)`
    Slice(u32, u32, u32),
    /// clone the (partially indexed) view, ask the clone; the history goes on on the original
    CloneThenGetLine(u32),
}

#[derive(Clone, Debug, Hash, Serialize, Deserialize)]
pub struct Case {
    pub text: String,
    pub reqs: Vec<Req>,
}

/// Pieces the generated texts are concatenated from ("\r" + "\n" pieces merge naturally).
// (U+2028, U+2029, U+0085, VT and FF are line breaks elsewhere, not here: only \n, \r\n, \r terminate)
const PIECES: [&str; 25] = [
    "a", "b", " ", "\n", "\r", "\r\n", "é", "漢", "😀", "𝒳", "", "\u{feff}", "\u{2028}", "\u{2029}", "\u{85}", "\u{b}\u{c}", "e\u{301}",
    // the borders of the UTF-8 length classes and of the UTF-16 surrogate range, and one character of every
    // 4-byte lead byte F0..F4
    "\u{7f}\u{80}", "\u{7ff}\u{800}", "\u{d7ff}\u{e000}", "\u{ffff}\u{10000}", "\u{3ffff}\u{40000}", "\u{e0100}", "\u{fffff}\u{100000}", "\u{10ffff}",
];
const TERMS: [&str; 3] = ["\n", "\r", "\r\n"];

fn show(text: &str) -> String {
    if text.chars().count() <= 120 {
        format!("{text:?}")
    } else {
        let head: String = text.chars().take(100).collect();
        format!("{head:?}… ({} bytes, {} lines)", text.len(), ref_lines(text).len())
    }
}

// ---------------------------------------------------------------------------------------
// oracle
// ---------------------------------------------------------------------------------------

fn sum_overflows(r: &Req) -> bool {
    matches!(r, Req::Slice(_, c, s) if u64::from(*c) + u64::from(*s) > u64::from(u32::MAX))
}

fn answer(view: &SourceView, want: &[&str], r: &Req, obs: &mut Obs) -> Result<(), String> {
    let n = want.len();
    match *r {
        Req::GetLine(i) => {
            let got = guard(|| view.get_line(i))?;
            let exp = want.get(i as usize).copied();
            if got != exp {
                return Err(format!("get_line({i}) = {got:?}, reference {exp:?} ({n} lines)"));
            }
        }
        Req::LineCount => {
            let got = guard(|| view.line_count())?;
            if got != n {
                return Err(format!("line_count() = {got}, reference {n}"));
            }
        }
        Req::LinesIter => {
            // bounded: more than n items is already wrong
            let got = guard(|| view.lines().take(n + 2).collect::<Vec<&str>>())?;
            if got == want && n <= 64 {
                crate::props::common::iter_conformance("lines()", || view.lines(), |l| l, want)?;
            }
            if got != want {
                let i = got.iter().zip(want).position(|(a, b)| a != b).unwrap_or(got.len().min(n));
                return Err(format!(
                    "lines() yields {} item(s), reference {n}; first difference at index {i}: {:?} vs {:?}",
                    got.len(),
                    got.get(i),
                    want.get(i)
                ));
            }
        }
        Req::Slice(l, c, s) => {
            obs.class_if(c >= 1 << 31 || s >= 1 << 31, "slice-edge-values(>=2^31)");
            let got = guard(|| view.get_line_slice(l, c, s))?;
            let Some(line) = want.get(l as usize).copied() else {
                obs.class("slice-of-missing-line");
                if got.is_some() {
                    return Err(format!("get_line_slice({l}, {c}, {s}) = {got:?} although line {l} does not exist ({n} lines)"));
                }
                return Ok(());
            };
            match ref_slice(line, c, s) {
                RefSlice::Nothing => {
                    obs.class("slice-out-of-range");
                    if got.is_some() {
                        return Err(format!(
                            "get_line_slice({l}, {c}, {s}) = {got:?} although line {line:?} has only {} UTF-16 units",
                            len16(line)
                        ));
                    }
                }
                RefSlice::Exactly(exp) => {
                    if got != Some(exp.as_str()) {
                        return Err(format!("get_line_slice({l}, {c}, {s}) = {got:?} on line {line:?}, reference Some({exp:?})"));
                    }
                    obs.class_if(s == 0, "empty-span");
                    obs.class_if(exp.chars().any(|ch| ch.len_utf16() == 2), "astral-slice");
                    obs.class_if(len16(&exp) > u64::from(s), "pair-cut-by-end-of-range");
                }
                RefSlice::InsidePair => {
                    // the statement does not say which half of the pair wins at the *start*; the end is
                    // fixed by c+n alone: the answer is the slice with the pair (from one unit earlier) or
                    // without it (from one unit later) - both stop where c+n says
                    obs.class("col-inside-surrogate(start half-way: with or without the pair)");
                    let with_pair = ref_slice(line, c - 1, s.saturating_add(1));
                    let without = if s >= 1 { ref_slice(line, c + 1, s - 1) } else { RefSlice::Exactly(String::new()) };
                    let mut ok: Vec<String> = vec![];
                    for r in [with_pair, without] {
                        if let RefSlice::Exactly(x) = r {
                            ok.push(x);
                        }
                    }
                    match got {
                        Some(g) if ok.iter().any(|x| x == g) => {}
                        other => {
                            return Err(format!(
                                "get_line_slice({l}, {c}, {s}) = {other:?} on line {line:?} (column inside a surrogate pair): the slice ends where c+n says, so it is one of {ok:?}"
                            ))
                        }
                    }
                }
            }
        }
        Req::CloneThenGetLine(i) => {
            let copy = guard(|| view.clone())?;
            let got = guard(|| copy.get_line(i))?;
            let exp = want.get(i as usize).copied();
            if got != exp {
                return Err(format!("clone().get_line({i}) = {got:?}, reference {exp:?} ({n} lines)"));
            }
            let cnt = guard(|| copy.line_count())?;
            if cnt != n {
                return Err(format!("clone().line_count() = {cnt} after get_line({i}), reference {n}"));
            }
        }
    }
    Ok(())
}

fn check(c: &Case, obs: &mut Obs) -> Verdict {
    let text = c.text.as_str();
    let want = ref_lines(text);
    let n = want.len();
    // both constructors, chosen by the case
    let made = if c.reqs.len() % 2 == 0 {
        guard(|| SourceView::from_string(text.to_string()))
    } else {
        guard(|| SourceView::new(Arc::from(text)))
    };
    let view = match made {
        Ok(v) => v,
        Err(p) => return Verdict::Fail(format!("constructing a view of {}: {p}", show(text))),
    };

    // model of how far the view has been asked to index (classes only, never the oracle)
    let mut indexed = 0usize;
    let mut seen_get = false;
    let mut seen_count = false;
    let mut seen_missing = false;
    let mut missing_before_present = false;
    for (k, r) in c.reqs.iter().enumerate() {
        if SKIP_U32_SUM_OVERFLOW && sum_overflows(r) {
            obs.excluded_known += 1;
            continue;
        }
        obs.inner_evals += 1;
        if let Err(e) = answer(&view, &want, r, obs) {
            return Verdict::Fail(format!("request #{k} after {:?} on text {}: {e}", &c.reqs[..k], show(text)));
        }
        let touched = match *r {
            Req::GetLine(i) => {
                let present = (i as usize) < n;
                obs.class_if(seen_count, "count-before-get");
                if present && seen_missing {
                    missing_before_present = true;
                }
                seen_missing |= !present;
                seen_get = true;
                Some(i)
            }
            Req::LineCount => {
                obs.class_if(seen_get, "count-after-get");
                seen_count = true;
                Some(u32::MAX)
            }
            Req::LinesIter => Some(u32::MAX),
            Req::Slice(l, _, _) => Some(l),
            Req::CloneThenGetLine(_) => {
                obs.class_if(k > 0, "clone-midway");
                obs.class_if(indexed > 0 && indexed < n, "clone-of-partially-indexed-view");
                obs.class_if(indexed == n, "clone-of-fully-indexed-view");
                None
            }
        };
        if let Some(i) = touched {
            indexed = indexed.max((i as usize).saturating_add(1).min(n));
            if i as usize >= n {
                indexed = n;
            }
        }
    }

    // classes of the text
    let has_crlf = text.contains("\r\n");
    let bytes = text.as_bytes();
    let has_lone_cr = bytes.iter().enumerate().any(|(i, &b)| b == b'\r' && bytes.get(i + 1) != Some(&b'\n'));
    obs.class_if(has_crlf, "crlf");
    obs.class_if(has_lone_cr, "lone-cr");
    obs.class_if(text.ends_with('\n') || text.ends_with('\r'), "trailing-terminator");
    obs.class_if(text.starts_with('\n') || text.starts_with('\r'), "leading-terminator");
    // an empty line that is neither the first nor the last sits between two terminators
    obs.class_if(n >= 3 && want[1..n - 1].iter().any(|l| l.is_empty()), "doubled-terminator");
    obs.class_if(text.is_empty(), "empty-text");
    obs.class_if(n > 1000, ">1000-lines");
    obs.class_if(text.chars().any(|ch| ch.len_utf8() > 1), "multi-byte-text");

    // first-request kind
    let late_first = match c.reqs.first() {
        Some(Req::GetLine(i)) => {
            let i = *i as usize;
            obs.class(if i >= n {
                "first:missing-line"
            } else if i >= 2 {
                "first:get-late-line"
            } else if i == 1 {
                "first:get-line-1"
            } else {
                "first:get-line-0"
            });
            i >= 2 && i < n
        }
        Some(Req::LineCount) => {
            obs.class("first:line_count");
            false
        }
        Some(Req::LinesIter) => {
            obs.class("first:lines");
            false
        }
        Some(Req::Slice(..)) => {
            obs.class("first:slice");
            false
        }
        Some(Req::CloneThenGetLine(_)) => {
            obs.class("first:clone");
            false
        }
        None => false,
    };
    obs.class_if(missing_before_present, "missing-line-before-present-one");
    if n >= 3 && has_crlf && has_lone_cr && late_first && missing_before_present {
        obs.class("non-trivial(history rule)");
        obs.nontrivial();
    }
    Verdict::Pass
}

// ---------------------------------------------------------------------------------------
// exhaustive_small
// ---------------------------------------------------------------------------------------

const SMALL_PIECES: [&str; 4] = ["a", "\n", "\r", "😀"];

/// Every text of <= 5 (thorough 6) pieces over {a, \n, \r, 😀} x every ordered triple (with
/// repetition) of requests from {GetLine(0..=3) (thorough 0..=5), LineCount, LinesIter}.
fn exhaustive(t: Tier) -> Box<dyn Iterator<Item = Case>> {
    let max_pieces = t.pick(5u32, 6);
    let max_line = t.pick(3u32, 5);
    let mut reqs: Vec<Req> = (0..=max_line).map(Req::GetLine).collect();
    reqs.push(Req::LineCount);
    reqs.push(Req::LinesIter);
    let mut texts: Vec<String> = vec![];
    for len in 0..=max_pieces {
        for mut i in 0..4usize.pow(len) {
            let mut s = String::new();
            for _ in 0..len {
                s.push_str(SMALL_PIECES[i % 4]);
                i /= 4;
            }
            texts.push(s);
        }
    }
    let r = reqs.len();
    let per = r * r * r;
    Box::new((0..texts.len() * per).map(move |i| {
        let k = i % per;
        Case {
            text: texts[i / per].clone(),
            reqs: vec![reqs[k / (r * r)].clone(), reqs[(k / r) % r].clone(), reqs[k % r].clone()],
        }
    }))
}

// ---------------------------------------------------------------------------------------
// slices (enumerated)
// ---------------------------------------------------------------------------------------

const SLICE_CHARS: [char; 5] = ['a', 'é', '漢', '😀', '𝒳'];

/// Every line of <= 4 (thorough 5) characters over {a, é, 漢, 😀, 𝒳}, alone or embedded between
/// other lines, x every (col, span) with col + span <= len16 + 2, plus the edge values 2^31 and
/// u32::MAX (and the pair summing to exactly u32::MAX / u32::MAX + 1) for each of col and span.
fn slices(t: Tier) -> Box<dyn Iterator<Item = Case>> {
    let max_chars = t.pick(4u32, 5);
    let mut lines: Vec<String> = vec![];
    for len in 0..=max_chars {
        for mut i in 0..5usize.pow(len) {
            let mut s = String::new();
            for _ in 0..len {
                s.push(SLICE_CHARS[i % 5]);
                i /= 5;
            }
            lines.push(s);
        }
    }
    Box::new(lines.into_iter().enumerate().flat_map(|(li, line)| {
        let (text, idx) = match li % 3 {
            0 => (line.clone(), 0u32),
            1 => (format!("b\r\n{line}\rb"), 1),
            _ => (format!("\n😀\n{line}"), 2),
        };
        let l16 = len16(&line) as u32;
        let mut pairs: Vec<(u32, u32)> = vec![];
        for col in 0..=l16 + 2 {
            for span in 0..=l16 + 2 - col {
                pairs.push((col, span));
            }
        }
        let mut edge: Vec<(u32, u32)> = vec![];
        for col in [0, 1, l16, 1 << 31, u32::MAX] {
            for span in [0, 1, 1 << 31, u32::MAX, u32::MAX - col, (u32::MAX - col).saturating_add(1)] {
                if col >= 1 << 31 || span >= 1 << 31 {
                    edge.push((col, span));
                }
            }
        }
        // small spans first: the first overflowing triple of a line is (u32::MAX, 1)
        edge.sort_by_key(|&(col, span)| (span, col));
        edge.dedup();
        pairs.extend(edge);
        pairs.into_iter().map(move |(col, span)| Case { text: text.clone(), reqs: vec![Req::Slice(idx, col, span)] })
    }))
}

/// Runs an enumeration sequentially and in order, so that a failure is always reported on the
/// first (smallest) failing case, independent of thread scheduling. Cases are distinct by
/// construction.
fn run_in_order(ctx: &mut Ctx, sub: &'static str, cases: Box<dyn Iterator<Item = Case>>, what: String) {
    if ctx.failed() {
        return;
    }
    let mut classes: std::collections::BTreeMap<&'static str, u64> = Default::default();
    let (mut evals, mut nontrivial) = (0u64, 0u64);
    for case in cases {
        heartbeat();
        let mut obs = Obs::default();
        let v = match guard(|| check(&case, &mut obs)) {
            Ok(v) => v,
            Err(p) => Verdict::Fail(format!("uncaught {p}")),
        };
        if !ctx.settle(sub, &case, v) {
            break;
        }
        if evals == 0 || (obs.nontrivial && nontrivial == 0) {
            ctx.sample(serde_json::json!({"sub": sub, "nontrivial": obs.nontrivial, "case": &case}));
        }
        evals += 1;
        nontrivial += u64::from(obs.nontrivial);
        ctx.stats.inner_evals += obs.inner_evals;
        ctx.stats.excluded_known += obs.excluded_known;
        for c in obs.classes {
            *classes.entry(c).or_insert(0) += 1;
        }
    }
    ctx.bulk(sub, evals, nontrivial);
    for (c, k) in classes {
        ctx.class_add(&format!("{sub}/{c}"), k);
    }
    if !ctx.failed() {
        ctx.note_exhaustive(what);
    }
}

fn run_exhaustive(ctx: &mut Ctx) {
    let what = format!(
        "every text of <= {} pieces over {{a, \\n, \\r, 😀}} x every ordered triple (with repetition) of {{GetLine(0..={}), LineCount, LinesIter}}",
        ctx.tier.pick(5, 6),
        ctx.tier.pick(3, 5)
    );
    run_in_order(ctx, "exhaustive_small", exhaustive(ctx.tier), what);
}

fn run_slices(ctx: &mut Ctx) {
    let what = format!(
        "every line of <= {} chars over {{a, é, 漢, 😀, 𝒳}} x every (col, span) with col + span <= len16 + 2, plus the 2^31 / u32::MAX edge triples",
        ctx.tier.pick(4, 5)
    );
    run_in_order(ctx, "slices", slices(ctx.tier), what);
}

// ---------------------------------------------------------------------------------------
// histories (generated)
// ---------------------------------------------------------------------------------------

/// A request before it is fitted to a text: kind + three 16-bit draws + an edge selector.
#[derive(Clone, Debug)]
struct ReqSel {
    kind: u8,
    a: u16,
    b: u16,
    c: u16,
    edge: u8,
}

fn req_sel() -> impl Strategy<Value = ReqSel> {
    (
        prop_oneof![8 => Just(0u8), 2 => Just(1u8), 1 => Just(2u8), 5 => Just(3u8), 2 => Just(4u8)],
        any::<u16>(),
        any::<u16>(),
        any::<u16>(),
        any::<u8>(),
    )
        .prop_map(|(kind, a, b, c, edge)| ReqSel { kind, a, b, c, edge })
}

/// Line index from 0..n+3, or u32::MAX for one edge selector in 16.
fn line_index(draw: u16, edge: u8, n: usize) -> u32 {
    if edge % 16 == 15 {
        u32::MAX
    } else {
        idx16(draw, n + 3) as u32
    }
}

fn fit(sel: &ReqSel, want: &[&str]) -> Req {
    let n = want.len();
    match sel.kind {
        0 => Req::GetLine(line_index(sel.a, sel.edge, n)),
        1 => Req::LineCount,
        2 => Req::LinesIter,
        3 => {
            // half of the time the longest line, else any line; line n is a missing one
            let line = if sel.a & 1 == 1 {
                (0..n).rev().max_by_key(|&i| len16(want[i])).unwrap_or(0)
            } else {
                idx16(sel.a, n + 1)
            };
            let l16 = want.get(line).map(|l| len16(l)).unwrap_or(0) as u32;
            let col = match sel.edge % 16 {
                14 => 1 << 31,
                15 => u32::MAX,
                _ => idx16(sel.b, l16 as usize + 3) as u32,
            };
            let span = match sel.edge / 16 {
                12 => 1 << 31,
                13 => u32::MAX,
                14 => u32::MAX - col,
                15 => (u32::MAX - col).saturating_add(1),
                // col + span <= len16 + 2 (0..=2 behind an edge column)
                _ if col > l16 + 2 => idx16(sel.c, 3) as u32,
                _ => idx16(sel.c, (l16 + 3 - col) as usize) as u32,
            };
            Req::Slice(line as u32, col, span)
        }
        _ => Req::CloneThenGetLine(line_index(sel.a, sel.edge, n)),
    }
}

fn concat(ps: &[usize]) -> String {
    ps.iter().map(|&i| PIECES[i]).collect()
}

fn piece() -> std::ops::Range<usize> {
    0..PIECES.len()
}

/// 0..24 pieces, or (1 in 25) a text with more than 1000 lines.
fn text_strategy() -> BoxedStrategy<String> {
    let small = vec(piece(), 0..25).prop_map(|ps| concat(&ps));
    // a unit of 1..5 (piece, terminator) pairs repeated until `count` pairs, then a tail
    let big = (vec((piece(), 0..TERMS.len()), 1..6), 1001usize..1300, vec(piece(), 0..4)).prop_map(|(unit, count, tail)| {
        let mut s = String::new();
        for k in 0..count {
            let (p, t) = unit[k % unit.len()];
            s.push_str(PIECES[p]);
            s.push_str(TERMS[t]);
        }
        s.push_str(&concat(&tail));
        s
    });
    prop_oneof![24 => small, 1 => big].boxed()
}

fn histories(_t: Tier) -> BoxedStrategy<Case> {
    (text_strategy(), vec(req_sel(), 1..21))
        .prop_map(|(text, sels)| {
            let reqs = {
                let want = ref_lines(&text);
                sels.iter().map(|s| fit(s, &want)).collect()
            };
            Case { text, reqs }
        })
        .boxed()
}



/// Long lines (60..400 characters, mostly ASCII with a rare wide character) sliced at columns
/// around the multiples of 64 and at random columns.
fn long_lines(_t: Tier) -> BoxedStrategy<Case> {
    let ch = prop_oneof![40 => proptest::sample::select(vec!['a', 'b', ';', ' ', '0', '(', '}']), 1 => proptest::sample::select(vec!['é', '漢', '😀', '\u{feff}'])];
    let line = prop_oneof![
        2 => vec(ch, 60..400).prop_map(|v| v.into_iter().collect::<String>()),
        2 => (60usize..400).prop_map(|n| "v12;".repeat(n / 4 + 1)[..n].to_string()),
    ];
    (
        vec(line, 1..4),
        proptest::sample::select(vec!["\n", "\r\n", "\r"]),
        vec((any::<u16>(), 0u32..7, -2i64..3, 0u32..6, any::<bool>()), 1..12),
    )
        .prop_map(|(lines, term, sels)| {
            let text = lines.join(term);
            let reqs = sels
                .into_iter()
                .map(|(l, k, d, span, random)| {
                    let li = idx16(l, lines.len());
                    let col = if random { u32::from(l) % 420 } else { (i64::from(k) * 64 + d).max(0) as u32 };
                    Req::Slice(li as u32, col, span)
                })
                .collect();
            Case { text, reqs }
        })
        .boxed()
}

fn subs() -> Vec<Sub> {
    vec![
        gen_sub("long_lines", long_lines, |t| t.pick(20_000, 100_000), check),
        custom_sub::<Case>("exhaustive_small", run_exhaustive, check),
        custom_sub::<Case>("slices", run_slices, check),
        gen_sub("histories", histories, |t| t.pick(150_000, 1_000_000), check),
    ]
}

pub const DEF: PropertyDef = PropertyDef {
    id: "C15",
    rule: "exhaustive_small: every text of <= 5 (thorough 6) pieces over {a, \\n, \\r, 😀} x every ordered triple with repetition of \
           {GetLine(0..=3) (thorough 0..=5), LineCount, LinesIter} on one view. slices: every line of <= 4 (thorough 5) chars over \
           {a, é, 漢, 😀, 𝒳}, alone / between other lines / last, x every (col, span) with col + span <= len16 + 2, plus 2^31, u32::MAX, \
           u32::MAX - col and u32::MAX - col + 1 for col and span. histories: 1..20 requests {GetLine(i), LineCount, LinesIter, \
           Slice(line, col, span), CloneThenGetLine(i)} with i from 0..n+3 or u32::MAX, on texts of 0..24 pieces over \
           {a, b, space, \\n, \\r, \\r\\n, é, 漢, 😀, 𝒳, \"\"} or (1 in 25) texts with > 1000 lines. Oracle: char-scanning reference splitter and UTF-16 unit-range slicer (u64 arithmetic), each request \
           answered from the reference regardless of history; a panic is a failure. Non-trivial = text with >= 3 lines containing \
           a \\r\\n and a lone \\r, first request GetLine(i) with 2 <= i < n, and a GetLine of a missing line before a GetLine of a present one",
    assumptions: &[
        "a column strictly inside a surrogate pair: the statement does not say which half wins at the start; accepted are the slice with and the slice without that pair, both ending where c+n says",
        "a slice is compared by value (the characters), not by its position inside the line",
        "CloneThenGetLine asks the clone for the line and then for its line count; the history continues on the original view",
    ],
    subs,
};
