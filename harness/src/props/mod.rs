use crate::engine::PropertyDef;

pub mod c01;
pub mod c02;
pub mod c03;
pub mod c04;
pub mod c05;
pub mod fuzzrun;
pub mod c06;
pub mod c07;
pub mod c08;
pub mod c09;
pub mod c10;
pub mod common;
pub mod c11;
pub mod c12;
pub mod c13;
pub mod c15;
pub mod c16;
pub mod c17;
pub mod c18;
pub mod c19;
pub mod c20;
pub mod c14;

pub fn all() -> Vec<PropertyDef> {
    vec![c01::DEF, c02::DEF, c03::DEF, c04::DEF, c05::DEF, c06::DEF, c07::DEF, c08::DEF, c09::DEF, c10::DEF, c11::DEF, c12::DEF, c13::DEF, c15::DEF, c16::DEF, c17::DEF, c18::DEF, c19::DEF, c20::DEF, c14::DEF]
}

pub fn lookup(id: &str) -> Option<PropertyDef> {
    all().into_iter().find(|d| d.id == id)
}
