//! Pieces shared by several property modules: derived producers (rewrite / flatten /
//! adjust / round trip), the "serialised form is valid v3" predicate, the reference lookup.

use proptest::collection::vec;
use proptest::prelude::*;
use serde::{Deserialize, Serialize};
use serde_json::Value;
use sourcemap::{
    DecodedMap, RewriteOptions, SourceMap, SourceMapIndex, SourceMapSection,
};

use crate::engine::{guard, Tier};
use crate::model::*;
use crate::refimpl::v3;

#[derive(Clone, Debug, PartialEq, Eq, Hash, Serialize, Deserialize)]
pub enum Producer {
    Direct,
    Rewrite {
        names: bool,
        contents: bool,
        prefixes: Vec<String>,
    },
    /// wrap the (regular) map into a one-section index at `off` and flatten it
    WrapFlatten { off: (u32, u32) },
    /// flatten an index model
    Flatten,
    /// `adjust_mappings` with the given adjustment model
    Adjust(Box<MM>),
    /// serialise and decode again
    RoundTrip,
}

/// A writer that takes at most `step` bytes per call (a legitimate `Write`: callers have to loop).
pub struct ShortWrites {
    pub out: Vec<u8>,
    pub step: usize,
}

impl std::io::Write for ShortWrites {
    fn write(&mut self, buf: &[u8]) -> std::io::Result<usize> {
        let n = buf.len().min(self.step.max(1));
        self.out.extend_from_slice(&buf[..n]);
        Ok(n)
    }
    fn flush(&mut self) -> std::io::Result<()> {
        Ok(())
    }
}

pub fn ser(m: &DecodedMap) -> Result<Vec<u8>, String> {
    let mut out = vec![];
    match guard(|| m.to_writer(&mut out)) {
        Ok(Ok(())) => {}
        Ok(Err(e)) => return Err(format!("to_writer failed: {e}")),
        Err(p) => return Err(format!("to_writer: {p}")),
    }
    // the same bytes must arrive in a writer that accepts only a few bytes per call
    if out.len() <= 2048 {
        let mut w = ShortWrites { out: vec![], step: 1 + out.len() % 13 };
        match guard(|| m.to_writer(&mut w)) {
            Ok(Ok(())) => {
                if w.out != out {
                    return Err(format!(
                        "to_writer into a writer that takes {} byte(s) per call wrote {} of {} bytes (or different ones): {:?}",
                        w.step,
                        w.out.len(),
                        out.len(),
                        String::from_utf8_lossy(&w.out[..w.out.len().min(80)])
                    ));
                }
            }
            Ok(Err(e)) => return Err(format!("to_writer into a writer with short writes failed: {e}")),
            Err(p) => return Err(format!("to_writer (short writes): {p}")),
        }
    }
    Ok(out)
}

pub fn ser_sm(m: &SourceMap) -> Result<Vec<u8>, String> {
    let mut out = vec![];
    match guard(|| m.to_writer(&mut out)) {
        Ok(Ok(())) => Ok(out),
        Ok(Err(e)) => Err(format!("to_writer failed: {e}")),
        Err(p) => Err(format!("to_writer: {p}")),
    }
}

pub fn dec(bytes: &[u8]) -> Result<DecodedMap, String> {
    match guard(|| sourcemap::decode_slice(bytes)) {
        Ok(Ok(m)) => Ok(m),
        Ok(Err(e)) => Err(format!("decode_slice failed: {e}")),
        Err(p) => Err(format!("decode_slice: {p}")),
    }
}

pub fn rewrite_opts<'a>(names: bool, contents: bool, prefixes: &'a [&'a str]) -> RewriteOptions<'a> {
    RewriteOptions {
        with_names: names,
        with_source_contents: contents,
        strip_prefixes: prefixes,
        ..Default::default()
    }
}

/// Applies a producer to an already built map. `Err` = the producer is not applicable or
/// failed in a way the caller decides about.
pub fn produce(base: DecodedMap, p: &Producer) -> Result<DecodedMap, String> {
    match p {
        Producer::Direct => Ok(base),
        Producer::Rewrite {
            names,
            contents,
            prefixes,
        } => {
            let pf: Vec<&str> = prefixes.iter().map(|s| s.as_str()).collect();
            let opts = rewrite_opts(*names, *contents, &pf);
            match base {
                DecodedMap::Regular(sm) => match guard(|| sm.rewrite(&opts)) {
                    Ok(Ok(m)) => Ok(DecodedMap::Regular(m)),
                    Ok(Err(e)) => Err(format!("rewrite failed: {e}")),
                    Err(p) => Err(format!("rewrite: {p}")),
                },
                DecodedMap::Hermes(h) => match guard(|| h.rewrite(&opts)) {
                    Ok(Ok(m)) => Ok(DecodedMap::Hermes(m)),
                    Ok(Err(e)) => Err(format!("hermes rewrite failed: {e}")),
                    Err(p) => Err(format!("hermes rewrite: {p}")),
                },
                DecodedMap::Index(i) => match guard(|| i.flatten_and_rewrite(&opts)) {
                    Ok(Ok(m)) => Ok(DecodedMap::Regular(m)),
                    Ok(Err(e)) => Err(format!("n/a: flatten_and_rewrite failed: {e}")),
                    Err(p) => Err(format!("flatten_and_rewrite: {p}")),
                },
            }
        }
        Producer::WrapFlatten { off } => {
            let idx = SourceMapIndex::new(
                Some("wrapped.js".into()),
                vec![SourceMapSection::new(*off, None, Some(base))],
            );
            match guard(|| idx.flatten()) {
                Ok(Ok(m)) => Ok(DecodedMap::Regular(m)),
                Ok(Err(e)) => Err(format!("flatten failed: {e}")),
                Err(p) => Err(format!("flatten: {p}")),
            }
        }
        Producer::Flatten => match base {
            DecodedMap::Index(i) => match guard(|| i.flatten()) {
                Ok(Ok(m)) => Ok(DecodedMap::Regular(m)),
                Ok(Err(e)) => Err(format!("n/a: flatten failed: {e}")),
                Err(p) => Err(format!("flatten: {p}")),
            },
            other => Ok(other),
        },
        Producer::Adjust(adj) => match base {
            DecodedMap::Regular(mut sm) => {
                let adj = adj.build()?;
                match guard(move || {
                    sm.adjust_mappings(&adj);
                    sm
                }) {
                    Ok(sm) => Ok(DecodedMap::Regular(sm)),
                    Err(p) => Err(format!("adjust_mappings: {p}")),
                }
            }
            other => Ok(other),
        },
        Producer::RoundTrip => dec(&ser(&base)?),
    }
}

/// Small-valued model (positions < 64) so that adjust/flatten arithmetic stays in range.
pub fn small_mm(max_tokens: usize) -> BoxedStrategy<MM> {
    let p = MMParams {
        max_tokens,
        ranges: false,
        max_sources: 3,
        max_names: 3,
        big_lines: false,
        distinct_strings: false,
        edge_values: false,
    };
    mm_strategy(p)
}

pub fn prefixes_strategy() -> BoxedStrategy<Vec<String>> {
    vec(
        prop_oneof![
            Just("~".to_string()),
            Just("/abs".to_string()),
            Just("/abs/".to_string()),
            Just("src".to_string()),
            Just("src/lib/".to_string()),
            Just("r".to_string()),
            Just("http://h".to_string()),
            Just("nomatch".to_string()),
            Just("".to_string()),
        ],
        0..3,
    )
    .boxed()
}

pub fn producer_for_regular(tier: Tier) -> BoxedStrategy<Producer> {
    let _ = tier;
    prop_oneof![
        3 => Just(Producer::Direct),
        2 => (any::<bool>(), any::<bool>(), prefixes_strategy())
            .prop_map(|(names, contents, prefixes)| Producer::Rewrite { names, contents, prefixes }),
        2 => (0u32..5, 0u32..50).prop_map(|off| Producer::WrapFlatten { off }),
        2 => small_mm(8).prop_map(|m| Producer::Adjust(Box::new(m))),
        1 => Just(Producer::RoundTrip),
    ]
    .boxed()
}

// ---------------------------------------------------------------------------------------
// "the serialised form is valid v3 and carries the map's values"
// ---------------------------------------------------------------------------------------

#[derive(Clone, Debug, PartialEq, Eq)]
struct IdTok {
    dl: u32,
    dc: u32,
    src: Option<(u32, u32, u32, Option<u32>)>,
    range: bool,
}

fn id_tokens(sm: &SourceMap) -> Vec<IdTok> {
    sm.tokens()
        .map(|t| IdTok {
            dl: t.get_dst_line(),
            dc: t.get_dst_col(),
            src: if t.has_source() {
                Some((
                    t.get_src_id(),
                    t.get_src_line(),
                    t.get_src_col(),
                    if t.has_name() { Some(t.get_name_id()) } else { None },
                ))
            } else {
                None
            },
            range: t.is_range(),
        })
        .collect()
}

fn dedup_id(v: Vec<IdTok>) -> Vec<IdTok> {
    let mut out: Vec<IdTok> = vec![];
    for t in v {
        if out.last() != Some(&t) {
            out.push(t);
        }
    }
    out
}

fn str_array(v: &Value) -> Option<Vec<Option<String>>> {
    v.as_array().map(|a| {
        a.iter()
            .map(|e| e.as_str().map(str::to_string))
            .collect()
    })
}

/// Checks the JSON object `v` against the regular map `sm` it was serialised from.
/// `check_ranges`: also read `rangeMappings` with the independent reader.
pub fn check_serialized_regular(sm: &SourceMap, v: &Value, check_ranges: bool) -> Result<(), String> {
    let obj = v.as_object().ok_or("serialised map is not a JSON object")?;
    if v["version"] != Value::from(3) {
        return Err(format!("version is {} (expected 3)", v["version"]));
    }
    let mappings = v["mappings"].as_str().ok_or("'mappings' is not a string")?;
    let sources = str_array(&v["sources"]).ok_or("'sources' is not an array")?;
    let names = str_array(&v["names"]).ok_or("'names' is not an array")?;
    if sources.len() != sm.get_source_count() as usize {
        return Err(format!("'sources' has {} entries, the map {}", sources.len(), sm.get_source_count()));
    }
    let root = match obj.get("sourceRoot") {
        None => None,
        Some(Value::String(s)) => Some(s.clone()),
        Some(other) => return Err(format!("'sourceRoot' written as {other} (must be a string or left out)")),
    };
    if root.as_deref() != sm.get_source_root() {
        return Err(format!("'sourceRoot' is {root:?}, the map's root is {:?}", sm.get_source_root()));
    }
    for (i, s) in sources.iter().enumerate() {
        let s = s.as_ref().ok_or_else(|| format!("sources[{i}] is not a string"))?;
        let joined = v3::join_source(root.as_deref(), s);
        if Some(joined.as_str()) != sm.get_source(i as u32) {
            return Err(format!(
                "sources[{i}]={s:?} with sourceRoot {root:?} reads {joined:?}, the map says {:?}",
                sm.get_source(i as u32)
            ));
        }
    }
    let map_names: Vec<Option<String>> = sm.names().map(|n| Some(n.to_string())).collect();
    if names != map_names {
        return Err(format!("'names' is {names:?}, the map has {map_names:?}"));
    }
    // mappings
    let dec = v3::decode_mappings(mappings, sources.len(), names.len())
        .map_err(|e| format!("independent reader rejects the emitted mappings {mappings:?}: {e:?}"))?;
    if dec.out_of_u32 {
        return Err(format!("emitted mappings {mappings:?} leave the u32 range"));
    }
    let mut want = id_tokens(sm);
    if !check_ranges {
        for t in &mut want {
            t.range = false;
        }
    }
    // range flags as the independent reader sees them
    let mut got: Vec<IdTok> = dec
        .tokens
        .iter()
        .map(|t| IdTok {
            dl: t.dl,
            dc: t.dc,
            src: t.src.as_ref().map(|s| (s.id, s.line, s.col, s.name)),
            range: false,
        })
        .collect();
    match obj.get("rangeMappings") {
        None => {
            if check_ranges && want.iter().any(|t| t.range) {
                return Err("the map has range tokens but no 'rangeMappings' key was written".into());
            }
        }
        Some(Value::String(rm)) => {
            if !check_ranges {
                return Err(format!("'rangeMappings' {rm:?} written for a map without range tokens"));
            }
            if !want.iter().any(|t| t.range) {
                return Err(format!("'rangeMappings' {rm:?} written although no token is a range"));
            }
            let marked = v3::decode_range_mappings(rm)
                .ok_or_else(|| format!("'rangeMappings' {rm:?} contains a non-base64 character"))?;
            // map (line, segment index) -> token index in `got`
            let mut k = 0usize;
            for (li, idxs) in dec.seg_index.iter().enumerate() {
                let m = marked.get(li).cloned().unwrap_or_default();
                for bit in &m {
                    if !idxs.contains(bit) {
                        return Err(format!(
                            "'rangeMappings' {rm:?} marks segment {bit} of line {li}, which has no such segment (mappings {mappings:?})"
                        ));
                    }
                }
                for si in idxs {
                    if m.contains(si) {
                        got[k].range = true;
                    }
                    k += 1;
                }
            }
            if marked.len() > dec.seg_index.len()
                && marked[dec.seg_index.len()..].iter().any(|m| !m.is_empty())
            {
                return Err(format!("'rangeMappings' {rm:?} marks segments on lines beyond the mappings"));
            }
        }
        Some(other) => return Err(format!("'rangeMappings' written as {other}")),
    }
    let want = dedup_id(want);
    let got = dedup_id(got);
    if got != want {
        let i = got.iter().zip(&want).position(|(a, b)| a != b).unwrap_or(got.len().min(want.len()));
        return Err(format!(
            "independent reading of mappings {mappings:?} differs from the map's tokens at index {i}: read {:?}, map has {:?} (read {} tokens, map {})",
            got.get(i), want.get(i), got.len(), want.len()
        ));
    }
    // sourcesContent
    let has_contents = sm.source_contents().any(|c| c.is_some());
    match obj.get("sourcesContent") {
        None => {
            if has_contents {
                return Err("'sourcesContent' left out although the map has contents".into());
            }
        }
        Some(Value::Array(a)) => {
            if !has_contents {
                return Err("'sourcesContent' written although the map has no contents".into());
            }
            if a.len() != sources.len() {
                return Err(format!("'sourcesContent' has {} entries for {} sources", a.len(), sources.len()));
            }
            for (i, c) in a.iter().enumerate() {
                let want = sm.get_source_contents(i as u32);
                let ok = match (c, want) {
                    (Value::Null, None) => true,
                    (Value::String(s), Some(w)) => s == w,
                    _ => false,
                };
                if !ok {
                    return Err(format!("sourcesContent[{i}] is {c}, the map has {want:?}"));
                }
            }
        }
        Some(other) => return Err(format!("'sourcesContent' written as {other}")),
    }
    // file
    match (obj.get("file"), sm.get_file()) {
        (None, None) => {}
        (Some(Value::String(f)), Some(w)) if f == w => {}
        (a, b) => return Err(format!("'file' is {a:?}, the map's file is {b:?}")),
    }
    // ignoreList
    let ign: Vec<u32> = sm.ignore_list().copied().collect();
    match obj.get("ignoreList") {
        None => {
            if !ign.is_empty() {
                return Err(format!("'ignoreList' left out although the map ignores {ign:?}"));
            }
        }
        Some(Value::Array(a)) => {
            let got: Vec<u32> = a.iter().filter_map(|x| x.as_u64().map(|x| x as u32)).collect();
            if got.len() != a.len() || got != ign || ign.is_empty() {
                return Err(format!("'ignoreList' is {a:?}, the map ignores {ign:?}"));
            }
        }
        Some(other) => return Err(format!("'ignoreList' written as {other}")),
    }
    // debug id
    match (obj.get("debug_id"), sm.get_debug_id()) {
        (None, None) => {}
        (Some(Value::String(s)), Some(id)) if *s == id.to_string() => {}
        (a, b) => return Err(format!("'debug_id' is {a:?}, the map's id is {:?}", b.map(|d| d.to_string()))),
    }
    if obj.contains_key("debugId") {
        return Err("'debugId' written next to/instead of 'debug_id'".into());
    }
    if obj.contains_key("sections") {
        return Err("regular map written with 'sections'".into());
    }
    Ok(())
}

pub fn check_serialized_any(m: &DecodedMap, v: &Value, check_ranges: bool) -> Result<(), String> {
    match m {
        DecodedMap::Regular(sm) => {
            if v.get("x_facebook_sources").is_some() {
                return Err("regular map written with 'x_facebook_sources'".into());
            }
            check_serialized_regular(sm, v, check_ranges)
        }
        DecodedMap::Hermes(h) => {
            if !v.get("x_facebook_sources").map(|x| x.is_array()).unwrap_or(false) {
                return Err("Hermes map written without an 'x_facebook_sources' array".into());
            }
            check_serialized_regular(h, v, check_ranges)
        }
        DecodedMap::Index(i) => {
            if v["version"] != Value::from(3) {
                return Err(format!("index version is {}", v["version"]));
            }
            match (v.get("file"), i.get_file()) {
                (None, None) => {}
                (Some(Value::String(f)), Some(w)) if f == w => {}
                (a, b) => return Err(format!("index 'file' is {a:?}, expected {b:?}")),
            }
            if v.get("mappings").is_some() {
                return Err("index written with a 'mappings' key".into());
            }
            let secs = v["sections"].as_array().ok_or("'sections' is not an array")?;
            if secs.len() != i.get_section_count() as usize {
                return Err(format!("{} sections written, index has {}", secs.len(), i.get_section_count()));
            }
            for (k, (sv, s)) in secs.iter().zip(i.sections()).enumerate() {
                if sv["offset"]["line"] != Value::from(s.get_offset_line())
                    || sv["offset"]["column"] != Value::from(s.get_offset_col())
                {
                    return Err(format!("section {k}: offset written as {}, section is at {:?}", sv["offset"], s.get_offset()));
                }
                match (sv.get("url"), s.get_url()) {
                    (None, None) | (Some(Value::Null), None) => {}
                    (Some(Value::String(u)), Some(w)) if u == w => {}
                    (a, b) => return Err(format!("section {k}: url {a:?} vs {b:?}")),
                }
                match (sv.get("map"), s.get_sourcemap()) {
                    (None, None) | (Some(Value::Null), None) => {}
                    (Some(mv), Some(m)) => check_serialized_any(m, mv, check_ranges)
                        .map_err(|e| format!("section {k}: {e}"))?,
                    (a, b) => return Err(format!("section {k}: map written={} present={}", a.is_some(), b.is_some())),
                }
            }
            Ok(())
        }
    }
}

// ---------------------------------------------------------------------------------------
// reference lookup (linear scan)
// ---------------------------------------------------------------------------------------

/// Index (in iteration order) of the token `lookup_token(line, col)` must return: the first
/// token among those with the greatest generated position not after the query.
pub fn ref_lookup_index(positions: &[(u32, u32)], q: (u32, u32)) -> Option<usize> {
    let mut best: Option<(usize, (u32, u32))> = None;
    for (i, p) in positions.iter().enumerate() {
        if *p <= q {
            match best {
                Some((_, bp)) if bp >= *p => {}
                _ => best = Some((i, *p)),
            }
        }
    }
    best.map(|b| b.0)
}

// ---------------------------------------------------------------------------------------
// iterator protocol: however an iterator is driven, it yields the same sequence
// ---------------------------------------------------------------------------------------

/// `expected` is what `make().map(proj).collect()` must give. Every other way of driving the
/// iterator (`nth`, `skip`, `step_by`, `count`, `last`, mixed `next`/`nth` walks) and `size_hint`
/// must be consistent with that sequence — `Iterator`'s provided methods guarantee it unless an
/// override disagrees with `next`. The adaptors are applied to the crate's iterator itself (`proj`
/// only renders the items afterwards), so that its own overrides are the ones exercised.
/// Bounded: at most `expected.len() + 2` items are ever pulled.
pub fn iter_conformance<T, I>(what: &str, make: impl Fn() -> I, proj: impl Fn(I::Item) -> T, expected: &[T]) -> Result<(), String>
where
    T: PartialEq + std::fmt::Debug + Clone,
    I: Iterator,
{
    let n = expected.len();
    let bound = n + 2;
    let r = guard(|| -> Result<(), String> {
        let all: Vec<T> = make().take(bound).map(&proj).collect();
        if all != expected {
            return Err(format!("{what}: yields {all:?}, expected {expected:?}"));
        }
        let (lo, hi) = make().size_hint();
        if lo > n || hi.map(|h| h < n).unwrap_or(false) {
            return Err(format!("{what}: size_hint() = ({lo}, {hi:?}) but the iterator yields {n} item(s)"));
        }
        let ks: Vec<usize> = if n <= 40 { (0..=n + 1).collect() } else { vec![0, 1, 2, 3, 15, 16, 17, 31, 32, 33, n / 2, n - 2, n - 1, n, n + 1] };
        for &k in &ks {
            let mut it = make();
            let got = it.nth(k).map(&proj);
            if got.as_ref() != expected.get(k) {
                return Err(format!("{what}: nth({k}) = {got:?}, the {k}-th item of the sequence is {:?}", expected.get(k)));
            }
            if k < n {
                let (lo, hi) = it.size_hint();
                let left = n - k - 1;
                if lo > left || hi.map(|h| h < left).unwrap_or(false) {
                    return Err(format!("{what}: size_hint() after nth({k}) = ({lo}, {hi:?}) with {left} item(s) left"));
                }
                let rest: Vec<T> = it.take(bound).map(&proj).collect();
                if rest != expected[k + 1..] {
                    return Err(format!("{what}: after nth({k}) the iterator continues with {rest:?}, expected {:?}", &expected[k + 1..]));
                }
            }
            if n <= 4096 {
                // a partly consumed iterator (k x next()) asked for count() and last()
                let eaten = k.min(n);
                let mut it = make();
                for _ in 0..eaten {
                    it.next();
                }
                let c = it.count();
                if c != n - eaten {
                    return Err(format!("{what}: count() after {eaten} x next() = {c}, {} item(s) are left", n - eaten));
                }
                let mut it = make();
                for _ in 0..eaten {
                    it.next();
                }
                let l = it.last().map(&proj);
                let want = if eaten < n { expected.last() } else { None };
                if l.as_ref() != want {
                    return Err(format!("{what}: last() after {eaten} x next() = {l:?}, expected {want:?}"));
                }
            }
            let skipped: Vec<T> = make().skip(k).take(bound).map(&proj).collect();
            if skipped != expected[k.min(n)..] {
                return Err(format!("{what}: skip({k}) yields {skipped:?}, expected {:?}", &expected[k.min(n)..]));
            }
        }
        for step in [2usize, 3] {
            let got: Vec<T> = make().step_by(step).take(bound).map(&proj).collect();
            let want: Vec<T> = expected.iter().step_by(step).cloned().collect();
            if got != want {
                return Err(format!("{what}: step_by({step}) yields {got:?}, expected {want:?}"));
            }
        }
        if n <= 4096 {
            // (an iterator that does not end would have been caught by the bounded collect above)
            let c = make().count();
            if c != n {
                return Err(format!("{what}: count() = {c}, the sequence has {n} item(s)"));
            }
            let l = make().last().map(&proj);
            if l.as_ref() != expected.last() {
                return Err(format!("{what}: last() = {l:?}, expected {:?}", expected.last()));
            }
        }
        // mixed walk: next, nth(1), next, nth(2), nth(0), ... against a cursor on the sequence
        let mut it = make();
        let mut cur = 0usize;
        for (round, skip) in [None, Some(1usize), None, Some(2), Some(0), None, Some(1), Some(3), None].into_iter().cycle().enumerate() {
            if cur > n || round > 4 * n + 9 {
                break;
            }
            let (got, want) = match skip {
                None => (it.next().map(&proj), expected.get(cur)),
                Some(k) => {
                    let g = it.nth(k).map(&proj);
                    cur += k;
                    (g, expected.get(cur))
                }
            };
            if got.as_ref() != want {
                return Err(format!("{what}: mixed next()/nth() walk: step {round} ({skip:?}) gives {got:?}, the sequence has {want:?} at index {cur}"));
            }
            if got.is_none() {
                break;
            }
            cur += 1;
        }
        Ok(())
    });
    match r {
        Ok(r) => r,
        Err(p) => Err(format!("{what}: {p}")),
    }
}
