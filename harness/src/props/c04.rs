//! C04 — token lookup returns the closest preceding mapping; tokens are always ordered.

use proptest::collection::vec;
use proptest::prelude::*;
use serde::{Deserialize, Serialize};
use sourcemap::{DecodedMap, SourceMap};

use super::common::*;
use crate::engine::{gen_sub, guard, Obs, PropertyDef, Sub, Tier, Verdict};
use crate::model::*;
use crate::{ensure, ensure_eq};

#[derive(Clone, Debug, Hash, Serialize, Deserialize)]
pub enum Op {
    Produce(Producer),
    SetSourceRoot(Option<String>),
    CloneMap,
}

#[derive(Clone, Debug, Hash, Serialize, Deserialize)]
pub struct Case {
    pub base: MM,
    pub ops: Vec<Op>,
    pub random_queries: Vec<(u32, u32)>,
}

fn invariant(sm: &SourceMap, stage: &str) -> Result<Vec<(u32, u32)>, String> {
    let r = guard(|| {
        let toks: Vec<_> = sm.tokens().collect();
        let n = toks.len();
        if sm.get_token_count() as usize != n {
            return Err(format!("{stage}: get_token_count()={} but tokens() yields {n}", sm.get_token_count()));
        }
        if sm.get_token(n).is_some() {
            return Err(format!("{stage}: get_token(count) is Some"));
        }
        let mut pos = Vec::with_capacity(n);
        for (i, t) in toks.iter().enumerate() {
            let g = sm.get_token(i).ok_or_else(|| format!("{stage}: get_token({i}) is None"))?;
            if g.get_raw_token() != t.get_raw_token() {
                return Err(format!("{stage}: get_token({i}) differs from the {i}-th iterated token"));
            }
            pos.push(t.get_dst());
        }
        if let Some(i) = pos.windows(2).position(|w| w[0] > w[1]) {
            return Err(format!("{stage}: generated positions decrease at index {i}: {:?} then {:?}", pos[i], pos[i + 1]));
        }
        // the i-th iterated token is the same however the iterator is driven
        let raws: Vec<sourcemap::RawToken> = toks.iter().map(|t| t.get_raw_token()).collect();
        super::common::iter_conformance(&format!("{stage}: tokens()"), || sm.tokens(), |t| t.get_raw_token(), &raws)?;
        if sm.has_names() != (sm.get_name_count() > 0) {
            return Err(format!("{stage}: has_names() = {} with {} names", sm.has_names(), sm.get_name_count()));
        }
        // the list iterators against the indexed accessors
        let srcs: Vec<Option<String>> = (0..sm.get_source_count()).map(|i| sm.get_source(i).map(str::to_string)).collect();
        super::common::iter_conformance(&format!("{stage}: sources()"), || sm.sources(), |s| Some(s.to_string()), &srcs)?;
        let nms: Vec<Option<String>> = (0..sm.get_name_count()).map(|i| sm.get_name(i).map(str::to_string)).collect();
        super::common::iter_conformance(&format!("{stage}: names()"), || sm.names(), |s| Some(s.to_string()), &nms)?;
        let cts: Vec<Option<String>> = (0..sm.get_source_count()).map(|i| sm.get_source_contents(i).map(str::to_string)).collect();
        super::common::iter_conformance(&format!("{stage}: source_contents()"), || sm.source_contents(), |s| s.map(str::to_string), &cts)?;
        Ok(pos)
    });
    match r {
        Ok(r) => r,
        Err(p) => Err(format!("{stage}: {p}")),
    }
}

fn queries_for(pos: &[(u32, u32)], extra: &[(u32, u32)]) -> Vec<(u32, u32)> {
    let mut q = vec![(0, 0), (u32::MAX, u32::MAX), (0, u32::MAX), (u32::MAX, 0)];
    for &(l, c) in pos {
        q.push((l, c));
        q.push((l, c.wrapping_add(1)));
        q.push((l, c.wrapping_sub(1)));
        q.push((l, 0));
        q.push((l, u32::MAX));
        q.push((l.wrapping_add(1), 0));
        q.push((l.wrapping_add(1), c));
        q.push((l.wrapping_sub(1), u32::MAX));
    }
    q.extend_from_slice(extra);
    q.sort();
    q.dedup();
    q
}

struct LookupStats {
    exact_dup: bool,
    between: bool,
    before_first: bool,
    later_line: bool,
}

fn lookups(sm: &SourceMap, pos: &[(u32, u32)], extra: &[(u32, u32)], stage: &str, obs: &mut Obs) -> Result<LookupStats, String> {
    lookups_via(sm, &DecodedMap::Regular(sm.clone()), pos, extra, stage, obs)
}

/// `as_decoded` wraps (a clone of) `sm`: the `DecodedMap`-level lookup must answer like the map itself.
fn lookups_via(sm: &SourceMap, as_decoded: &DecodedMap, pos: &[(u32, u32)], extra: &[(u32, u32)], stage: &str, obs: &mut Obs) -> Result<LookupStats, String> {
    let mut st = LookupStats { exact_dup: false, between: false, before_first: false, later_line: false };
    let raws: Vec<sourcemap::RawToken> = if pos.len() <= 200 { sm.tokens().map(|t| t.get_raw_token()).collect() } else { vec![] };
    // every query is asked on the same object in ascending order, then in descending order, then
    // once more right after a query far away: an answer must not depend on what was asked before
    let asc = queries_for(pos, extra);
    let mut order: Vec<(u32, u32)> = asc.clone();
    if asc.len() <= 4000 {
        order.extend(asc.iter().rev().copied());
        for (k, q) in asc.iter().enumerate() {
            order.push(asc[(k * 7 + 3) % asc.len()]);
            order.push(*q);
        }
    }
    for q in order {
        obs.inner_evals += 1;
        let want = ref_lookup_index(pos, q);
        let got = guard(|| sm.lookup_token(q.0, q.1).map(|t| t.get_raw_token()))
            .map_err(|p| format!("{stage}: lookup_token{q:?}: {p}"))?;
        let got2 = guard(|| as_decoded.lookup_token(q.0, q.1).map(|t| t.get_raw_token()))
            .map_err(|p| format!("{stage}: DecodedMap::lookup_token{q:?}: {p}"))?;
        // exact hit: the first token at that position (iteration order); otherwise *a* token
        // at the greatest position not after the query (the statement does not say which)
        let exact = want.map(|i| pos[i] == q).unwrap_or(false);
        let acceptable: Vec<_> = match want {
            None => vec![],
            Some(i) if exact => vec![sm.get_token(i).unwrap().get_raw_token()],
            Some(i) => (0..pos.len())
                .filter(|k| pos[*k] == pos[i])
                .map(|k| sm.get_token(k).unwrap().get_raw_token())
                .collect(),
        };
        for (how, g) in [("lookup_token", &got), ("DecodedMap::lookup_token", &got2)] {
            let ok = match g {
                None => want.is_none(),
                Some(r) => acceptable.contains(r),
            };
            if !ok {
                return Err(format!(
                    "{stage}: {how}{q:?} returned {g:?}; the linear scan over tokens() allows {} {acceptable:?} (positions {pos:?})",
                    if exact { "exactly the first token at the position:" } else { "any of" }
                ));
            }
        }
        // TokenIter::seek positions the iterator right behind the token a lookup lands on
        if !raws.is_empty() || pos.is_empty() {
            let seeked = guard(|| {
                let mut it = sm.tokens();
                let found = it.seek(q.0, q.1);
                (found, it.take(3).map(|t| t.get_raw_token()).collect::<Vec<_>>())
            })
            .map_err(|p| format!("{stage}: tokens().seek{q:?}: {p}"))?;
            let ks: Vec<usize> = match want {
                None => vec![],
                Some(i) if exact => vec![i],
                Some(i) => (0..pos.len()).filter(|k| pos[*k] == pos[i]).collect(),
            };
            let ok = match want {
                None => !seeked.0 && seeked.1 == raws[..raws.len().min(3)],
                Some(_) => seeked.0 && ks.iter().any(|k| seeked.1 == raws[(k + 1).min(raws.len())..(k + 4).min(raws.len())]),
            };
            if !ok {
                return Err(format!(
                    "{stage}: tokens().seek{q:?} = {} and the iterator continues with {:?}; lookup lands on index {ks:?} of {} tokens (a failed seek must leave the iterator where it was)",
                    seeked.0,
                    seeked.1,
                    raws.len()
                ));
            }
        }
        match want {
            None => st.before_first = true,
            Some(i) => {
                let p = pos[i];
                if p == q {
                    if pos.iter().filter(|x| **x == p).count() >= 2 {
                        st.exact_dup = true;
                    }
                } else if pos.get(i + 1).map(|n| *n > q).unwrap_or(false) || pos.iter().any(|x| *x > q) {
                    st.between = true;
                }
                if p.0 < q.0 {
                    st.later_line = true;
                }
            }
        }
    }
    Ok(st)
}

fn check(c: &Case, obs: &mut Obs) -> Verdict {
    let mut sm = match c.base.build() {
        Ok(m) => m,
        Err(e) => return Verdict::Fail(format!("building the model failed: {e}")),
    };
    obs.class(match c.base.effective_route() {
        Route::Builder => "route:builder",
        Route::Raw => "route:raw",
        Route::Doc => "route:decoded",
    });
    let mut stage = String::from("initial");
    let mut nontrivial = false;
    // the same map as a Hermes/Metro map (a document with x_facebook_sources decodes as one, however
    // many lines it has): lookups through SourceMapHermes and through DecodedMap::Hermes
    if c.base.tokens.len() <= 200 {
        let mut twin = c.base.clone();
        twin.route = Route::Doc;
        let n = twin.sources.len();
        match (MHermes { map: twin, fb: vec![None; n] }).build() {
            Ok(h) => {
                let pos = match invariant(&h, "as a Hermes map") {
                    Ok(p) => p,
                    Err(e) => return Verdict::Fail(e),
                };
                if let Err(e) = lookups_via(&h, &DecodedMap::Hermes(h.clone()), &pos, &c.random_queries, "as a Hermes map", obs) {
                    return Verdict::Fail(e);
                }
                obs.class("also-as-hermes-map");
            }
            Err(e) => return Verdict::Fail(format!("the model does not decode as a Hermes map: {e}")),
        }
    }
    // maps a clone was taken from: they stay alive next to the clone the history goes on with, and have to keep
    // answering for their own tokens whatever happens to the clone (and the other way round)
    let mut aside: Vec<(String, SourceMap)> = vec![];
    for step in 0..=c.ops.len() {
        let pos = match invariant(&sm, &stage) {
            Ok(p) => p,
            Err(e) => return Verdict::Fail(e),
        };
        let st = match lookups(&sm, &pos, &c.random_queries, &stage, obs) {
            Ok(s) => s,
            Err(e) => return Verdict::Fail(e),
        };
        for (since, old) in aside.iter().rev().take(2) {
            let what = format!("{stage}: the map a clone was taken from ({since})");
            let r = invariant(old, &what).and_then(|p| lookups(old, &p, &c.random_queries, &what, obs).map(|_| ()));
            if let Err(e) = r {
                return Verdict::Fail(e);
            }
        }
        if !aside.is_empty() {
            // and the current map once more, now that the older ones have been queried
            if let Err(e) = lookups(&sm, &pos, &c.random_queries, &format!("{stage} (again, after querying the older objects)"), obs) {
                return Verdict::Fail(e);
            }
        }
        obs.class_if(st.exact_dup, "exact-hit-on-duplicated-position");
        obs.class_if(st.between, "between-tokens");
        obs.class_if(st.before_first, "before-first");
        obs.class_if(st.later_line, "from-later-line");
        obs.class_if(pos.is_empty(), "empty-map");
        obs.class_if(pos.len() == 1, "single-token");
        let has_dup = pos.windows(2).any(|w| w[0] == w[1]);
        if pos.len() >= 3 && has_dup && (st.exact_dup || st.between) {
            nontrivial = true;
        }
        let Some(op) = c.ops.get(step) else { break };
        stage = format!("after op {step} {op:?}");
        match op {
            Op::CloneMap => {
                obs.class("op:clone");
                let copy = sm.clone();
                aside.push((stage.clone(), std::mem::replace(&mut sm, copy)));
            }
            Op::SetSourceRoot(r) => {
                obs.class("op:set_source_root");
                if let Err(p) = guard(|| sm.set_source_root(r.clone())) {
                    return Verdict::Fail(format!("{stage}: {p}"));
                }
            }
            Op::Produce(p) => {
                obs.class(match p {
                    Producer::Direct => "op:none",
                    Producer::Rewrite { .. } => "op:rewrite",
                    Producer::WrapFlatten { .. } => "op:wrap+flatten",
                    Producer::Flatten => "op:flatten",
                    Producer::Adjust(_) => "op:adjust_mappings",
                    Producer::RoundTrip => "op:roundtrip",
                });
                match produce(DecodedMap::Regular(sm), p) {
                    Ok(DecodedMap::Regular(m)) => sm = m,
                    Ok(_) => return Verdict::Fail(format!("{stage}: producer changed the map kind")),
                    Err(e) => return Verdict::Fail(format!("{stage}: {e}")),
                }
            }
        }
    }
    obs.class_if(c.ops.len() >= 3, "history>=3");
    obs.class_if(c.base.tokens.len() >= 256, ">=256-tokens");
    obs.class_if(c.base.tokens.len() >= 1024, ">=1024-tokens");
    if nontrivial {
        obs.nontrivial();
    }
    ensure!(true, "");
    ensure_eq!(1, 1, "");
    Verdict::Pass
}

fn dup_heavy(p: MMParams) -> BoxedStrategy<MM> {
    // squeeze the positions into a tiny grid so that many tokens share one position
    (mm_strategy(p), 1u32..4, 1u32..4)
        .prop_map(|(mut m, ml, mc)| {
            for t in &mut m.tokens {
                t.dl %= ml;
                t.dc %= mc;
            }
            m
        })
        .boxed()
}

fn plain(t: Tier) -> BoxedStrategy<Case> {
    let p = MMParams { ranges: true, ..MMParams::regular(t) };
    (
        prop_oneof![3 => mm_strategy(p), 2 => dup_heavy(p)],
        vec((small_or_edge(), small_or_edge()), 0..6),
    )
        .prop_map(|(base, random_queries)| Case { base, ops: vec![], random_queries })
        .boxed()
}

fn histories(t: Tier) -> BoxedStrategy<Case> {
    let p = MMParams {
        max_tokens: t.pick(20, 50),
        ranges: false,
        max_sources: 3,
        max_names: 3,
        big_lines: false,
        distinct_strings: false,
        edge_values: false,
    };
    let op = prop_oneof![
        6 => producer_for_regular(t).prop_map(Op::Produce),
        1 => prop_oneof![Just(None), pool_string(ROOT_POOL).prop_map(Some)].prop_map(Op::SetSourceRoot),
        2 => Just(Op::CloneMap),
    ];
    (
        prop_oneof![2 => mm_strategy(p), 2 => dup_heavy(p)],
        vec(op, 1..7),
        vec((0u32..70, 0u32..70), 0..4),
    )
        .prop_map(|(base, ops, random_queries)| Case { base, ops, random_queries })
        .boxed()
}

fn large(t: Tier) -> BoxedStrategy<Case> {
    let p = MMParams { ranges: true, max_tokens: t.pick(1500, 6000), ..MMParams::regular(t) };
    (
        mm_strategy(p).prop_map(|mut m| {
            // decoding very long maps through JSON is C01/C02's business: keep the cheap routes
            if m.route == Route::Doc {
                m.route = Route::Raw;
            }
            m
        }),
        vec((small_or_edge(), small_or_edge()), 0..6),
    )
        .prop_map(|(base, random_queries)| Case { base, ops: vec![], random_queries })
        .boxed()
}

/// One long run of tokens at a single position (lengths around the powers of two and their
/// multiples), with a few tokens before and after it.
fn duplicate_runs(_t: Tier) -> BoxedStrategy<Case> {
    let run = prop_oneof![
        2 => 1usize..6,
        3 => (4u32..9, 0usize..5).prop_map(|(k, d)| (1usize << k) - 2 + d),
        2 => (1usize..5, 0usize..4).prop_map(|(m, d)| 33 * m - 1 + d),
        1 => 20usize..140,
    ];
    (run, 0usize..4, 0usize..4, (0u32..3, 2u32..50), prop_oneof![Just(Route::Builder), Just(Route::Raw), Just(Route::Doc)])
        .prop_map(|(run, before, after, (line, col), route)| {
            let mut tokens = vec![];
            let mk = |dl: u32, dc: u32, k: usize| MTok {
                dl,
                dc,
                src: Some(crate::refimpl::v3::RefSrc { id: 0, line: k as u32, col: (k % 7) as u32, name: None }),
                range: false,
                junk: (0, 0),
            };
            for b in 0..before {
                tokens.push(mk(line, (col - 1).saturating_sub(b as u32), 1000 + b));
            }
            for k in 0..run {
                tokens.push(mk(line, col, k));
            }
            for a in 0..after {
                tokens.push(mk(line + (a as u32 % 2), col + 1 + a as u32, 2000 + a));
            }
            let base = MM {
                file: None,
                root: None,
                sources: vec!["a.js".into()],
                contents: vec![],
                names: vec![],
                tokens,
                ignore: vec![],
                debug_id: None,
                route,
                json: JsonStyle::default(),
            };
            Case { base, ops: vec![], random_queries: vec![] }
        })
        .boxed()
}

fn subs() -> Vec<Sub> {
    vec![
        gen_sub("duplicate_runs", duplicate_runs, |t| t.pick(9_000, 60_000), check),
        gen_sub("large_maps", large, |t| t.pick(300, 2_000), check),
        gen_sub("lookups", plain, |t| t.pick(120_000, 600_000), check),
        gen_sub("histories", histories, |t| t.pick(40_000, 200_000), check),
    ]
}

pub const DEF: PropertyDef = PropertyDef {
    id: "C04",
    rule: "duplicate_runs: one run of 1..140 tokens at a single position (lengths around powers of two and multiples of 33) with 0..3 tokens before and after. large_maps: maps with up to 1500 (6000) tokens. lookups: model maps (all routes, tokens inserted in arbitrary order, positions squeezed onto tiny grids for many duplicates, \
           empty and single-token maps) x queries derived from every token position (exact, +-1 column, column 0 / u32::MAX, neighbouring \
           lines, corners) plus random ones; oracle = linear scan over tokens(). histories: 1..6 producing operations (rewrite, \
           adjust_mappings, round trip, wrap+flatten, set_source_root, clone) with the ordering invariant and all lookups after every step. \
           After every step also: iterator-protocol conformance of tokens()/sources()/names()/source_contents() (nth, skip, step_by, count, last, size_hint, mixed walks), TokenIter::seek, has_names; the initial map is also queried as a Hermes map (SourceMapHermes and DecodedMap::Hermes). Non-trivial = >= 3 tokens, a duplicated position, and an exact hit on a duplicated position or a query strictly between two tokens",
    assumptions: &[
        "when several identical raw tokens share a position the returned one is identified by value, not by index",
        "histories use coordinates < 64 so that adjust/flatten arithmetic stays in range (overflow is C05's domain)",
    ],
    subs,
};
