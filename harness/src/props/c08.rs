//! C08 — index maps: section lookup and flattening describe the same mapping.

use std::collections::{BTreeMap, BTreeSet};

use proptest::collection::vec;
use proptest::prelude::*;
use serde::{Deserialize, Serialize};
use sourcemap::{DecodedMap, SourceMapIndex};

use crate::engine::{gen_sub, guard, Obs, PropertyDef, Sub, Tier, Verdict};
use crate::model::*;
use crate::refimpl::v3;
use crate::{ensure, ensure_eq};

#[derive(Clone, Debug, Hash, Serialize, Deserialize)]
pub struct Case {
    pub index: MIndex,
    pub random_queries: Vec<(u32, u32)>,
}

// ---------------------------------------------------------------------------------------
// reference flattener
// ---------------------------------------------------------------------------------------

#[derive(Clone, Debug, PartialEq, Eq, PartialOrd, Ord)]
struct FTok {
    dl: u32,
    dc: u32,
    /// (source name, original line, original column, name)
    src: Option<(String, u32, u32, Option<String>)>,
    range: bool,
}

#[derive(Clone, Debug, Default)]
struct Flat {
    tokens: Vec<FTok>,
    /// per source name: first non-absent content in token order
    contents: BTreeMap<String, Option<String>>,
    ignored: BTreeSet<String>,
    names: BTreeSet<String>,
}

/// A section's map as the flattener sees it: tokens in position order with resolved strings,
/// the content and ignore flag of the *section-local* source behind each token.
struct Local {
    tokens: Vec<(FTok, Option<String>, bool)>,
}

fn local_of_mm(m: &MM) -> Local {
    let mut toks: Vec<&MTok> = m.tokens.iter().collect();
    toks.sort_by_key(|t| (t.dl, t.dc));
    let ign: BTreeSet<u32> = m.ignore.iter().copied().collect();
    Local {
        tokens: toks
            .into_iter()
            .map(|t| {
                let (content, ignored) = match &t.src {
                    Some(s) => (m.contents.get(s.id as usize).cloned().flatten(), ign.contains(&s.id)),
                    None => (None, false),
                };
                (
                    FTok {
                        dl: t.dl,
                        dc: t.dc,
                        src: t.src.as_ref().map(|s| {
                            (
                                v3::join_source(m.root.as_deref(), &m.sources[s.id as usize]),
                                s.line,
                                s.col,
                                s.name.map(|n| m.names[n as usize].clone()),
                            )
                        }),
                        range: t.range,
                    },
                    content,
                    ignored,
                )
            })
            .collect(),
    }
}

fn local_of_flat(f: &Flat) -> Local {
    Local {
        tokens: f
            .tokens
            .iter()
            .map(|t| {
                let (c, i) = match &t.src {
                    Some(s) => (f.contents.get(&s.0).cloned().flatten(), f.ignored.contains(&s.0)),
                    None => (None, false),
                };
                (t.clone(), c, i)
            })
            .collect(),
    }
}

/// `Err(())` = some section (at any depth) has no embedded map.
fn ref_flatten(ix: &MIndex) -> Result<Flat, ()> {
    let mut out = Flat::default();
    for s in &ix.sections {
        let local = match &s.map {
            None => return Err(()),
            Some(MAny::Regular(m)) => local_of_mm(m),
            Some(MAny::Hermes(h)) => local_of_mm(&h.map),
            Some(MAny::Index(i)) => local_of_flat(&ref_flatten(i)?),
        };
        for (t, content, ignored) in local.tokens {
            let dc = if t.dl == 0 { t.dc + s.off.1 } else { t.dc };
            let ft = FTok { dl: t.dl + s.off.0, dc, ..t };
            if let Some(src) = &ft.src {
                let e = out.contents.entry(src.0.clone()).or_insert(None);
                if e.is_none() {
                    *e = content;
                }
                if ignored {
                    out.ignored.insert(src.0.clone());
                }
                if let Some(n) = &src.3 {
                    out.names.insert(n.clone());
                }
            }
            out.tokens.push(ft);
        }
    }
    Ok(out)
}

// ---------------------------------------------------------------------------------------
// reference index lookup
// ---------------------------------------------------------------------------------------

/// Set of acceptable answers for a lookup: `None` = nothing found.
type Answers = Option<Vec<Option<(String, u32, u32, Option<String>)>>>;

fn lookup_in_tokens(tokens: &[FTok], q: (u32, u32)) -> Answers {
    // tokens sorted by position; exact hit: first of the tie group (ties among equal
    // positions are in unspecified order inside the real map, so every member is accepted
    // unless all members agree anyway)
    let best = tokens.iter().filter(|t| (t.dl, t.dc) <= q).map(|t| (t.dl, t.dc)).max()?;
    let group: Vec<&FTok> = tokens.iter().filter(|t| (t.dl, t.dc) == best).collect();
    Some(
        group
            .into_iter()
            .map(|t| {
                t.src.as_ref().map(|(s, l, c, n)| {
                    let shift = if t.range && t.dl == q.0 { q.1 - t.dc } else { 0 };
                    (s.clone(), *l, c.saturating_add(shift), n.clone())
                })
            })
            .collect(),
    )
}

fn ref_index_lookup(ix: &MIndex, q: (u32, u32)) -> Answers {
    let s = ix.sections.iter().filter(|s| s.off <= q).max_by_key(|s| s.off)?;
    let rel = (q.0 - s.off.0, if q.0 == s.off.0 { q.1 - s.off.1 } else { q.1 });
    match s.map.as_ref()? {
        MAny::Regular(m) => lookup_in_tokens(&local_of_mm(m).tokens.into_iter().map(|t| t.0).collect::<Vec<_>>(), rel),
        MAny::Hermes(h) => lookup_in_tokens(&local_of_mm(&h.map).tokens.into_iter().map(|t| t.0).collect::<Vec<_>>(), rel),
        MAny::Index(i) => ref_index_lookup(i, rel),
    }
}

// ---------------------------------------------------------------------------------------
// generator: sections keep their tokens below the next section's offset
// ---------------------------------------------------------------------------------------

fn small_params() -> MMParams {
    MMParams {
        max_tokens: 14,
        ranges: true,
        max_sources: 3,
        max_names: 3,
        big_lines: false,
        distinct_strings: false,
        edge_values: false,
    }
}

fn squeeze(mut m: MM) -> MM {
    // sections are small: lines 0..5, columns 0..40
    for t in &mut m.tokens {
        t.dl %= 5;
        t.dc %= 40;
    }
    // a third of the section maps use one shared family of source names (same name at the same
    // index in several sections, with different contents / ignore flags per section)
    if m.json.key_perm.first().copied().unwrap_or(0) % 3 == 0 {
        for (i, s) in m.sources.iter_mut().enumerate() {
            *s = format!("vendor{i}.js");
        }
        m.root = None;
    }
    m
}

/// Drops everything at or beyond `limit` (section-relative position of the next offset).
fn clip_any(a: &mut MAny, limit: Option<(u32, u32)>) {
    let Some(limit) = limit else { return };
    match a {
        MAny::Regular(m) => m.tokens.retain(|t| (t.dl, t.dc) < limit),
        MAny::Hermes(h) => h.map.tokens.retain(|t| (t.dl, t.dc) < limit),
        MAny::Index(i) => {
            i.sections.retain(|s| s.off < limit);
            clip_index(i, Some(limit));
        }
    }
}

fn rel_limit(off: (u32, u32), next: (u32, u32)) -> (u32, u32) {
    if next.0 == off.0 {
        (0, next.1 - off.1)
    } else {
        (next.0 - off.0, next.1)
    }
}

fn clip_index(ix: &mut MIndex, outer: Option<(u32, u32)>) {
    let offs: Vec<(u32, u32)> = ix.sections.iter().map(|s| s.off).collect();
    for (k, s) in ix.sections.iter_mut().enumerate() {
        let next = offs.get(k + 1).copied().or(outer);
        match (s.map.as_mut(), next) {
            (Some(m), Some(next)) => clip_any(m, Some(rel_limit(s.off, next))),
            (Some(MAny::Index(i)), None) => clip_index(i, None),
            _ => {}
        }
    }
}

fn section_map(depth: u32) -> BoxedStrategy<MAny> {
    let leaf = prop_oneof![
        5 => mm_strategy(small_params()).prop_map(|m| MAny::Regular(squeeze(m))),
        1 => hermes_strategy(small_params()).prop_map(|mut h| { h.map = squeeze(h.map); MAny::Hermes(h) }),
    ];
    if depth == 0 {
        leaf.boxed()
    } else {
        prop_oneof![5 => leaf, 2 => raw_index(depth - 1).prop_map(MAny::Index)].boxed()
    }
}

fn raw_index(depth: u32) -> BoxedStrategy<MIndex> {
    let section = (
        // line gap to the previous section (0 = same line), column
        prop_oneof![2 => Just(0u32), 3 => 1u32..4],
        prop_oneof![4 => Just(0u32), 6 => 1u32..30, 1 => proptest::sample::select(vec![255u32, 256, 65535, 65536, 65537, 70000, 131072, 1 << 20])],
        prop_oneof![4 => Just(None), 1 => Just(Some("http://h/sec.map".to_string()))],
        prop_oneof![1 => Just(None), 12 => section_map(depth).prop_map(Some)],
    );
    (
        vec(section, 1..6),
        prop_oneof![1 => Just(None), 1 => pool_string(FILE_POOL).prop_map(Some)],
        any::<bool>(),
        vec(any::<u8>(), 6),
        json_style(),
    )
        .prop_map(|(secs, file, via_api, order, style)| {
            let mut cur: Option<(u32, u32)> = None;
            let mut sections = vec![];
            for (gap, col, url, map) in secs {
                let off = match cur {
                    None => (gap.saturating_sub(1), col),
                    Some((l, c)) => {
                        if gap == 0 {
                            (l, c + col + 1)
                        } else {
                            (l + gap, col)
                        }
                    }
                };
                cur = Some(off);
                sections.push(MSection { off, url, map });
            }
            MIndex { file, sections, via_api, order, style }
        })
        .boxed()
}

fn case_strategy(t: Tier) -> BoxedStrategy<Case> {
    (raw_index(t.pick(2, 3)), vec((0u32..24, 0u32..80), 0..6))
        .prop_map(|(mut index, random_queries)| {
            clip_index(&mut index, None);
            Case { index, random_queries }
        })
        .boxed()
}

// ---------------------------------------------------------------------------------------
// check
// ---------------------------------------------------------------------------------------

/// One index object that lives on: flattened and queried, then changed below its (nested)
/// sections through the `*_mut` accessors, then flattened and queried again.
#[derive(Clone, Debug, Hash, Serialize, Deserialize)]
pub enum LOp {
    /// nothing: flatten + lookups twice in a row
    Again,
    SetContents(u16, u16, Option<String>),
    Ignore(u16, u16),
    SetSource(u16, u16, String),
    SetRoot(u16, Option<String>),
    /// replace a leaf map by a one-token map (through `set_sourcemap` on its section)
    ReplaceLeaf(u16, String),
    CloneIndex,
    /// move every top-level section this many lines down, by overwriting the sections (through `get_section_mut`)
    /// with new ones that have the same url and map
    MoveDown(u8),
}

#[derive(Clone, Debug, Hash, Serialize, Deserialize)]
pub struct LCase {
    pub index: MIndex,
    pub ops: Vec<LOp>,
}

fn one_token_map(src: &str) -> MM {
    MM {
        file: None,
        root: None,
        sources: vec![src.to_string()],
        contents: vec![Some(format!("// {src}"))],
        names: vec![],
        tokens: vec![MTok { dl: 0, dc: 0, src: Some(crate::refimpl::v3::RefSrc { id: 0, line: 1, col: 2, name: None }), range: false, junk: (0, 0) }],
        ignore: vec![],
        debug_id: None,
        route: Route::Raw,
        json: JsonStyle::default(),
    }
}

/// Applies `f` to the `sel`-th leaf map (depth first) of the model and of the object alike.
/// `f` gets the model map and the section that holds the object's map.
fn with_leaf(ix: &mut MIndex, smi: &mut SourceMapIndex, left: &mut usize, f: &mut dyn FnMut(&mut MM, &mut sourcemap::SourceMapSection) -> Result<(), String>) -> Result<bool, String> {
    for (k, sec) in ix.sections.iter_mut().enumerate() {
        match &mut sec.map {
            None => {}
            Some(MAny::Index(inner)) => {
                let osec = smi.get_section_mut(k as u32).ok_or("get_section_mut")?;
                match osec.get_sourcemap_mut() {
                    Some(DecodedMap::Index(oi)) => {
                        if with_leaf(inner, oi, left, f)? {
                            return Ok(true);
                        }
                    }
                    _ => return Err("model and object disagree on a nested index".into()),
                }
            }
            Some(MAny::Regular(mm)) => {
                if *left == 0 {
                    f(mm, smi.get_section_mut(k as u32).ok_or("get_section_mut")?)?;
                    return Ok(true);
                }
                *left -= 1;
            }
            Some(MAny::Hermes(h)) => {
                if *left == 0 {
                    f(&mut h.map, smi.get_section_mut(k as u32).ok_or("get_section_mut")?)?;
                    return Ok(true);
                }
                *left -= 1;
            }
        }
    }
    Ok(false)
}

fn count_leaves(ix: &MIndex) -> usize {
    ix.sections
        .iter()
        .map(|s| match &s.map {
            None => 0,
            Some(MAny::Index(i)) => count_leaves(i),
            Some(_) => 1,
        })
        .sum()
}

fn inner_map(sec: &mut sourcemap::SourceMapSection) -> Result<&mut sourcemap::SourceMap, String> {
    match sec.get_sourcemap_mut() {
        Some(DecodedMap::Regular(sm)) => Ok(sm),
        Some(DecodedMap::Hermes(h)) => Ok(h),
        _ => Err("model and object disagree on a leaf map".into()),
    }
}

fn check_living(c: &LCase, obs: &mut Obs) -> Verdict {
    let mut ix = c.index.clone();
    let mut smi: SourceMapIndex = match ix.build() {
        Ok(i) => i,
        Err(e) => return Verdict::Fail(format!("building the index failed: {e}")),
    };
    let v = judge(&ix, &smi, &[], obs);
    if !v.is_pass() {
        return v;
    }
    let mut changed = false;
    for (k, op) in c.ops.iter().enumerate() {
        let leaves = count_leaves(&ix);
        let r = guard(|| -> Result<(), String> {
            let pick = |sel: u16| (sel as usize * leaves) >> 16;
            match op {
                LOp::Again => {}
                LOp::CloneIndex => smi = smi.clone(),
                LOp::MoveDown(n) => {
                    if ix.sections.iter().all(|s| s.off.0.checked_add(u32::from(*n)).is_some()) {
                        for (k, sec) in ix.sections.iter_mut().enumerate() {
                            sec.off.0 += u32::from(*n);
                            let slot = smi.get_section_mut(k as u32).ok_or("get_section_mut")?;
                            let (l, c) = slot.get_offset();
                            let moved = sourcemap::SourceMapSection::new((l + u32::from(*n), c), slot.get_url().map(str::to_string), slot.get_sourcemap().cloned());
                            *slot = moved;
                        }
                    }
                }
                LOp::SetContents(sel, src, text) if leaves > 0 => {
                    with_leaf(&mut ix, &mut smi, &mut pick(*sel), &mut |mm, sec| {
                        if mm.sources.is_empty() {
                            return Ok(());
                        }
                        let i = (*src as usize * mm.sources.len()) >> 16;
                        mm.contents.resize(mm.sources.len(), None);
                        mm.contents[i] = text.clone();
                        inner_map(sec)?.set_source_contents(i as u32, text.as_deref());
                        Ok(())
                    })?;
                }
                LOp::Ignore(sel, src) if leaves > 0 => {
                    with_leaf(&mut ix, &mut smi, &mut pick(*sel), &mut |mm, sec| {
                        if mm.sources.is_empty() {
                            return Ok(());
                        }
                        let i = ((*src as usize * mm.sources.len()) >> 16) as u32;
                        if !mm.ignore.contains(&i) {
                            mm.ignore.push(i);
                        }
                        inner_map(sec)?.add_to_ignore_list(i);
                        Ok(())
                    })?;
                }
                LOp::SetSource(sel, src, name) if leaves > 0 => {
                    with_leaf(&mut ix, &mut smi, &mut pick(*sel), &mut |mm, sec| {
                        if mm.sources.is_empty() {
                            return Ok(());
                        }
                        let i = (*src as usize * mm.sources.len()) >> 16;
                        mm.sources[i] = name.clone();
                        inner_map(sec)?.set_source(i as u32, name);
                        Ok(())
                    })?;
                }
                LOp::SetRoot(sel, root) if leaves > 0 => {
                    with_leaf(&mut ix, &mut smi, &mut pick(*sel), &mut |mm, sec| {
                        mm.root = root.clone();
                        inner_map(sec)?.set_source_root(root.clone());
                        Ok(())
                    })?;
                }
                LOp::ReplaceLeaf(sel, src) if leaves > 0 => {
                    let mut target = pick(*sel);
                    // the section holding the leaf: replace model and object map
                    fn replace(ix: &mut MIndex, smi: &mut SourceMapIndex, left: &mut usize, new: &MM) -> Result<bool, String> {
                        for (k, sec) in ix.sections.iter_mut().enumerate() {
                            match &mut sec.map {
                                None => {}
                                Some(MAny::Index(inner)) => {
                                    let osec = smi.get_section_mut(k as u32).ok_or("get_section_mut")?;
                                    if let Some(DecodedMap::Index(oi)) = osec.get_sourcemap_mut() {
                                        if replace(inner, oi, left, new)? {
                                            return Ok(true);
                                        }
                                    }
                                }
                                Some(_) => {
                                    if *left == 0 {
                                        sec.map = Some(MAny::Regular(new.clone()));
                                        let built = new.build()?;
                                        smi.get_section_mut(k as u32).ok_or("get_section_mut")?.set_sourcemap(Some(DecodedMap::Regular(built)));
                                        return Ok(true);
                                    }
                                    *left -= 1;
                                }
                            }
                        }
                        Ok(false)
                    }
                    replace(&mut ix, &mut smi, &mut target, &one_token_map(src))?;
                }
                _ => {}
            }
            Ok(())
        });
        match r {
            Ok(Ok(())) => {}
            Ok(Err(e)) => return Verdict::Fail(format!("op {k} {op:?}: {e}")),
            Err(p) => return Verdict::Fail(format!("op {k} {op:?}: {p}")),
        }
        obs.class(match op {
            LOp::Again => "op:again",
            LOp::SetContents(..) => "op:set_source_contents(below a section)",
            LOp::Ignore(..) => "op:add_to_ignore_list(below a section)",
            LOp::SetSource(..) => "op:set_source(below a section)",
            LOp::SetRoot(..) => "op:set_source_root(below a section)",
            LOp::ReplaceLeaf(..) => "op:set_sourcemap",
            LOp::CloneIndex => "op:clone",
            LOp::MoveDown(_) => "op:sections-overwritten-at-new-offsets",
        });
        changed |= !matches!(op, LOp::Again | LOp::CloneIndex);
        match judge(&ix, &smi, &[], obs) {
            Verdict::Pass => {}
            Verdict::Fail(m) => return Verdict::Fail(format!("after op {k} {op:?} (ops so far {:?}): {m}", &c.ops[..=k])),
            other => return other,
        }
    }
    let nested = ix.sections.iter().any(|s| matches!(s.map, Some(MAny::Index(_))));
    obs.class_if(nested, "living-index-with-nested-index");
    if changed && nested && c.ops.len() >= 2 {
        obs.nontrivial();
    }
    Verdict::Pass
}

fn living(t: Tier) -> BoxedStrategy<LCase> {
    let name = || proptest::sample::select(vec!["a.js", "lib/b.js", "/abs/c.js", "", "http://h/d.js", "x/a.js"]).prop_map(str::to_string);
    let op = prop_oneof![
        1 => Just(LOp::Again),
        3 => (any::<u16>(), any::<u16>(), proptest::option::of(proptest::sample::select(vec!["", "new content", "x\ny"]).prop_map(str::to_string))).prop_map(|(a, b, t)| LOp::SetContents(a, b, t)),
        2 => (any::<u16>(), any::<u16>()).prop_map(|(a, b)| LOp::Ignore(a, b)),
        2 => (any::<u16>(), any::<u16>(), name()).prop_map(|(a, b, n)| LOp::SetSource(a, b, n)),
        1 => (any::<u16>(), proptest::option::of(proptest::sample::select(vec!["", "r", "r/", "webpack:///"]).prop_map(str::to_string))).prop_map(|(a, r)| LOp::SetRoot(a, r)),
        2 => (any::<u16>(), name()).prop_map(|(a, n)| LOp::ReplaceLeaf(a, n)),
        1 => Just(LOp::CloneIndex),
        1 => (1u8..4).prop_map(LOp::MoveDown),
    ];
    (raw_index(t.pick(2, 3)), vec(op, 1..6))
        .prop_map(|(mut index, ops)| {
            clip_index(&mut index, None);
            // the object is built through the API (sections are reached through the mutators)
            fn api(ix: &mut MIndex) {
                ix.via_api = true;
                for s in &mut ix.sections {
                    if let Some(MAny::Index(i)) = &mut s.map {
                        api(i);
                    }
                }
            }
            api(&mut index);
            LCase { index, ops }
        })
        .boxed()
}

fn has_unresolved(ix: &MIndex) -> bool {
    ix.sections.iter().any(|s| match &s.map {
        None => true,
        Some(MAny::Index(i)) => has_unresolved(i),
        _ => false,
    })
}

fn queries(ix: &MIndex, flat: Option<&Flat>, extra: &[(u32, u32)]) -> Vec<(u32, u32)> {
    let mut q = vec![(0, 0), (u32::MAX, u32::MAX)];
    for s in &ix.sections {
        let (l, c) = s.off;
        q.extend([(l, c), (l, c + 1), (l, c.saturating_sub(1)), (l, 0), (l, c + 7), (l, u32::MAX), (l + 1, 0), (l + 1, c), (l + 2, 3), (l.saturating_sub(1), u32::MAX)]);
    }
    if let Some(f) = flat {
        for t in &f.tokens {
            q.extend([(t.dl, t.dc), (t.dl, t.dc + 1), (t.dl, t.dc.saturating_sub(1)), (t.dl + 1, 0)]);
        }
    }
    q.extend_from_slice(extra);
    q.sort();
    q.dedup();
    q
}

fn tok_answer(t: &sourcemap::Token<'_>) -> Option<(String, u32, u32, Option<String>)> {
    if t.has_source() {
        Some((
            t.get_source().unwrap_or("<unresolved>").to_string(),
            t.get_src_line(),
            t.get_src_col(),
            t.get_name().map(str::to_string),
        ))
    } else {
        None
    }
}

fn check(c: &Case, obs: &mut Obs) -> Verdict {
    let ix = &c.index;
    let smi: SourceMapIndex = match ix.build() {
        Ok(i) => i,
        Err(e) => return Verdict::Fail(format!("building the index failed: {e}")),
    };
    judge(ix, &smi, &c.random_queries, obs)
}

/// Everything C08 demands of the index object `smi`, which is in the state the model `ix` describes.
fn judge(ix: &MIndex, smi: &SourceMapIndex, random_queries: &[(u32, u32)], obs: &mut Obs) -> Verdict {
    let expected = ref_flatten(ix);
    let flat = match guard(|| smi.flatten()) {
        Ok(r) => r,
        Err(p) => return Verdict::Fail(format!("flatten: {p}")),
    };
    match (&expected, &flat) {
        (Err(()), Ok(_)) => return Verdict::Fail("flatten succeeded although a section has no embedded map".into()),
        (Ok(_), Err(e)) => return Verdict::Fail(format!("flatten failed on a fully resolved index: {e}")),
        (Err(()), Err(_)) => obs.class("unresolved-section=>flatten-error"),
        (Ok(want), Ok(got)) => {
            let o = obs_map(got);
            ensure!(o.positions_sorted(), "flattened tokens are not ordered by generated position");
            let mut got_toks: Vec<FTok> = o
                .tokens
                .iter()
                .map(|t| FTok {
                    dl: t.dl,
                    dc: t.dc,
                    src: t.src.as_ref().map(|s| (s.source.clone(), s.line, s.col, s.name.clone())),
                    range: t.range,
                })
                .collect();
            got_toks.sort();
            let mut want_toks = want.tokens.clone();
            want_toks.sort();
            if got_toks != want_toks {
                let i = got_toks.iter().zip(&want_toks).position(|(a, b)| a != b).unwrap_or(got_toks.len().min(want_toks.len()));
                return Verdict::Fail(format!(
                    "flatten(): token {i} (canonical order) is {:?}, the reference flattener says {:?} ({} vs {} tokens)",
                    got_toks.get(i),
                    want_toks.get(i),
                    got_toks.len(),
                    want_toks.len()
                ));
            }
            // sources: every referenced name exactly once; per-name contents; ignored names
            let got_sources: Vec<String> = o.sources.clone();
            let want_sources: BTreeSet<String> = want.contents.keys().cloned().collect();
            let got_set: BTreeSet<String> = got_sources.iter().cloned().collect();
            ensure_eq!(got_set, want_sources, "flatten(): set of source names");
            ensure_eq!(got_sources.len(), got_set.len(), "flatten(): duplicate source names in {got_sources:?}");
            for (i, s) in got_sources.iter().enumerate() {
                ensure_eq!(o.contents[i], want.contents[s], "flatten(): content carried for source {s:?} (first non-absent in token order)");
            }
            let got_ign: BTreeSet<String> = o.ignore.iter().filter_map(|i| got_sources.get(*i as usize).cloned()).collect();
            ensure_eq!(got_ign, want.ignored, "flatten(): ignored source names");
            ensure_eq!(o.ignore.iter().filter(|i| **i as usize >= got_sources.len()).count(), 0, "flatten(): ignore list points past the sources");
            let got_names: BTreeSet<String> = o.names.iter().cloned().collect();
            ensure_eq!(got_names, want.names, "flatten(): names");
            ensure_eq!(o.file, ix.file.clone(), "flatten(): file");
            obs.class_if(want.contents.values().any(|c| c.is_some()), "contents-carried");
            obs.class_if(!want.ignored.is_empty(), "ignore-carried");
        }
    }
    // flatten_and_rewrite with the default options is flatten() followed by rewrite()
    if let Ok(fm) = &flat {
        let opts = sourcemap::RewriteOptions::default();
        let direct = guard(|| smi.clone().flatten_and_rewrite(&opts).map(|m| obs_map(&m)).map_err(|e| e.to_string()));
        let two_steps = guard(|| fm.clone().rewrite(&opts).map(|m| obs_map(&m)).map_err(|e| e.to_string()));
        match (direct, two_steps) {
            (Ok(Ok(a)), Ok(Ok(b))) => ensure_eq!(a, b, "flatten_and_rewrite(default options) differs from flatten() then rewrite()"),
            (a, b) => return Verdict::Fail(format!("flatten_and_rewrite / flatten+rewrite on a fully resolved index: {:?} / {:?}", a.map(|r| r.map(|_| ())), b.map(|r| r.map(|_| ())))),
        }
    }
    // lookups
    let flat_ref = expected.as_ref().ok();
    let as_decoded = DecodedMap::Index(smi.clone());
    let mut first_line_right = false;
    for q in queries(ix, flat_ref, random_queries) {
        obs.inner_evals += 1;
        let want = ref_index_lookup(ix, q);
        for (how, got) in [
            ("SourceMapIndex::lookup_token", guard(|| smi.lookup_token(q.0, q.1).map(|t| tok_answer(&t)))),
            ("DecodedMap::lookup_token", guard(|| as_decoded.lookup_token(q.0, q.1).map(|t| tok_answer(&t)))),
        ] {
            let got = match got {
                Ok(g) => g,
                Err(p) => return Verdict::Fail(format!("{how}{q:?}: {p}")),
            };
            let ok = match (&got, &want) {
                (None, None) => true,
                (Some(g), Some(w)) => w.contains(g),
                _ => false,
            };
            if !ok {
                return Verdict::Fail(format!("{how}{q:?} = {got:?}; section-wise reference lookup allows {want:?}"));
            }
        }
        if let (Some(w), Ok(fm)) = (&want, &flat) {
            let got = match guard(|| fm.lookup_token(q.0, q.1).map(|t| tok_answer(&t))) {
                Ok(g) => g,
                Err(p) => return Verdict::Fail(format!("flattened lookup_token{q:?}: {p}")),
            };
            match got {
                Some(g) if w.contains(&g) => {}
                other => {
                    return Verdict::Fail(format!(
                        "index lookup at {q:?} finds one of {w:?} but the flattened map finds {other:?}"
                    ))
                }
            }
        }
        if let Some(s) = ix.sections.iter().filter(|s| s.off <= q).max_by_key(|s| s.off) {
            if s.off.1 > 0 && q.0 == s.off.0 && q.1 > s.off.1 && want.is_some() {
                first_line_right = true;
            }
        }
    }
    // classes
    obs.class(if ix.via_api { "built:SourceMapIndex::new" } else { "built:decoded-json(shuffled sections)" });
    obs.class_if(ix.sections.iter().any(|s| matches!(s.map, Some(MAny::Index(_)))), "nested-index");
    obs.class_if(ix.sections.iter().any(|s| matches!(s.map, Some(MAny::Hermes(_)))), "hermes-section");
    obs.class_if(ix.sections.iter().any(|s| s.map.as_ref().map(|m| m.token_count() == 0).unwrap_or(false)), "empty-section");
    obs.class_if(ix.sections.windows(2).any(|w| w[0].off.0 == w[1].off.0), "two-sections-on-one-line");
    obs.class_if(ix.sections.iter().any(|s| s.off.1 >= 65536), "column-offset>=65536");
    obs.class_if(first_line_right, "query-right-of-offset-on-first-line");
    obs.class_if(has_unresolved(ix), "unresolved-section");
    let rich = ix.sections.iter().any(|s| {
        s.off.1 > 0
            && match &s.map {
                Some(MAny::Regular(m)) => m.tokens.iter().any(|t| t.dl == 0) && m.tokens.iter().any(|t| t.dl > 0),
                _ => false,
            }
    });
    if ix.sections.len() >= 2 && rich && first_line_right {
        obs.nontrivial();
    }
    Verdict::Pass
}

fn subs() -> Vec<Sub> {
    vec![
        gen_sub("living_index", living, |t| t.pick(12_000, 150_000), check_living),
        gen_sub("indexes", case_strategy, |t| t.pick(90_000, 400_000), check),
    ]
}

pub const DEF: PropertyDef = PropertyDef {
    id: "C08",
    rule: "model indexes: 1..5 sections at strictly increasing offsets (same-line and later-line neighbours, column offsets), each a regular \
           map (range tokens, roots, contents, ignore lists), a Hermes map, a nested index (depth <= 2/3) or url-only; tokens clipped below \
           the next offset by construction; built through SourceMapIndex::new or decoded from JSON with shuffled sections. Oracles: a \
           reference flattener (token multiset, source-name set, first-seen contents, ignored names, names, file, error on unresolved \
           sections), a section-wise reference lookup, and index-lookup == flattened-lookup. Queries: every offset +-1, column 0 / far right, \
           following lines, every flattened token position +-1, random. living_index: the same judgement after changes made below (nested) sections through get_section_mut / get_sourcemap_mut / set_sourcemap and after clone; flatten_and_rewrite(default) == flatten + rewrite. Non-trivial = >= 2 sections, one with a non-zero column offset and \
           tokens on its first and a later line, and a successful query right of the offset on its first line",
    assumptions: &[
        "token order among equal generated positions is not compared; lookups on tied positions accept any member of the tie set",
        "coordinates are small (no overflow; overflow is C05's domain)",
    ],
    subs,
};
