//! Independent reading and writing of the Source Map v3 `mappings` / `rangeMappings`
//! strings and of the surrounding JSON, written from the format description only.

use super::vlq;
use serde::{Deserialize, Serialize};

#[derive(Clone, Debug, PartialEq, Eq, Hash, Serialize, Deserialize, PartialOrd, Ord)]
pub struct RefSrc {
    pub id: u32,
    pub line: u32,
    pub col: u32,
    pub name: Option<u32>,
}

/// A token as the format describes it: generated position plus optional original location.
#[derive(Clone, Debug, PartialEq, Eq, Hash, Serialize, Deserialize, PartialOrd, Ord)]
pub struct RefTok {
    pub dl: u32,
    pub dc: u32,
    pub src: Option<RefSrc>,
}

/// One segment of a line in *absolute* values (`None` = empty segment, i.e. `,,`).
pub type SegAbs = Option<(u32, Option<RefSrc>)>;

/// Writes a `mappings` string: `;` between lines, `,` between segments, generated column
/// relative to the previous segment of the same line (restarting at 0 per line), the other
/// four fields relative to their previous occurrence anywhere in the string.
pub fn encode_mappings(lines: &[Vec<SegAbs>]) -> String {
    let mut out = String::new();
    let (mut p_src, mut p_line, mut p_col, mut p_name) = (0i64, 0i64, 0i64, 0i64);
    for (li, line) in lines.iter().enumerate() {
        if li > 0 {
            out.push(';');
        }
        let mut p_dc = 0i64;
        for (si, seg) in line.iter().enumerate() {
            if si > 0 {
                out.push(',');
            }
            let Some((dc, src)) = seg else { continue };
            vlq::write(&mut out, i64::from(*dc) - p_dc);
            p_dc = i64::from(*dc);
            if let Some(s) = src {
                vlq::write(&mut out, i64::from(s.id) - p_src);
                p_src = i64::from(s.id);
                vlq::write(&mut out, i64::from(s.line) - p_line);
                p_line = i64::from(s.line);
                vlq::write(&mut out, i64::from(s.col) - p_col);
                p_col = i64::from(s.col);
                if let Some(n) = s.name {
                    vlq::write(&mut out, i64::from(n) - p_name);
                    p_name = i64::from(n);
                }
            }
        }
    }
    out
}

#[derive(Clone, Debug, PartialEq, Eq)]
pub enum Malformed {
    Arity(usize),
    SourceIndex(i128),
    NameIndex(i128),
    CutOff,
    TooLong,
    Foreign(char),
}

#[derive(Clone, Debug, Default)]
pub struct Decoded {
    /// tokens in document order
    pub tokens: Vec<RefTok>,
    /// per line, the number of non-empty segments and, for each non-empty segment, its
    /// index among *all* segments of the line (empty ones included)
    pub seg_index: Vec<Vec<usize>>,
    /// a generated column / original line / original column left `0..2^32` (the format does
    /// not say what then happens)
    pub out_of_u32: bool,
}

/// Independent reader for a `mappings` string.
pub fn decode_mappings(text: &str, n_sources: usize, n_names: usize) -> Result<Decoded, Malformed> {
    let mut d = Decoded::default();
    let (mut src, mut sl, mut sc, mut name) = (0i128, 0i128, 0i128, 0i128);
    for (li, line) in text.split(';').enumerate() {
        let mut dc = 0i128;
        let mut idxs = vec![];
        for (si, seg) in line.split(',').enumerate() {
            if seg.is_empty() {
                continue;
            }
            let vals = match vlq::read(seg) {
                Ok(v) => v,
                Err(vlq::RefErr::Foreign(c)) => return Err(Malformed::Foreign(c)),
                Err(vlq::RefErr::Unterminated) => return Err(Malformed::CutOff),
                Err(vlq::RefErr::TooLong) => return Err(Malformed::TooLong),
                Err(vlq::RefErr::Empty) => unreachable!("non-empty segment"),
            };
            if !matches!(vals.len(), 1 | 4 | 5) {
                return Err(Malformed::Arity(vals.len()));
            }
            dc += vals[0].value;
            let mut tok = RefTok {
                dl: li as u32,
                dc: dc as u32,
                src: None,
            };
            if !(0..=i128::from(u32::MAX)).contains(&dc) {
                d.out_of_u32 = true;
            }
            if vals.len() >= 4 {
                src += vals[1].value;
                if src < 0 || src >= n_sources as i128 {
                    return Err(Malformed::SourceIndex(src));
                }
                sl += vals[2].value;
                sc += vals[3].value;
                if !(0..=i128::from(u32::MAX)).contains(&sl)
                    || !(0..=i128::from(u32::MAX)).contains(&sc)
                {
                    d.out_of_u32 = true;
                }
                let mut rs = RefSrc {
                    id: src as u32,
                    line: sl as u32,
                    col: sc as u32,
                    name: None,
                };
                if vals.len() == 5 {
                    name += vals[4].value;
                    if name < 0 || name >= n_names as i128 {
                        return Err(Malformed::NameIndex(name));
                    }
                    rs.name = Some(name as u32);
                }
                tok.src = Some(rs);
            }
            d.tokens.push(tok);
            idxs.push(si);
        }
        d.seg_index.push(idxs);
    }
    Ok(d)
}

/// `rangeMappings` writer: per line a little-endian bit per segment index, 6 bits per base64
/// digit; trailing all-zero digits dropped unless `pad` asks to keep some.
pub fn encode_range_mappings(lines: &[Vec<bool>], pad: usize) -> String {
    let mut out = String::new();
    for (li, bits) in lines.iter().enumerate() {
        if li > 0 {
            out.push(';');
        }
        let last = bits.iter().rposition(|b| *b);
        let Some(last) = last else {
            continue;
        };
        let ndigits = last / 6 + 1 + pad;
        for d in 0..ndigits {
            let mut v = 0u8;
            for b in 0..6 {
                if bits.get(d * 6 + b).copied().unwrap_or(false) {
                    v |= 1 << b;
                }
            }
            out.push(vlq::ALPHABET[v as usize] as char);
        }
    }
    out
}

/// `rangeMappings` reader: for each line the set of marked segment indices.
pub fn decode_range_mappings(text: &str) -> Option<Vec<Vec<usize>>> {
    let mut out = vec![];
    for line in text.split(';') {
        let mut marked = vec![];
        for (di, ch) in line.bytes().enumerate() {
            let v = vlq::digit_of(ch)?;
            for b in 0..6 {
                if v & (1 << b) != 0 {
                    marked.push(di * 6 + b);
                }
            }
        }
        out.push(marked);
    }
    Some(out)
}

/// The documented source-root rule: a non-empty root (one trailing `/` removed) is joined
/// with `/` to every source that is not absolute (`/…`, `http:…`, `https:…`).
pub fn join_source(root: Option<&str>, source: &str) -> String {
    match root {
        Some(r) if !r.is_empty() => {
            let abs = !source.is_empty()
                && (source.starts_with('/')
                    || source.starts_with("http:")
                    || source.starts_with("https:"));
            if abs {
                source.to_string()
            } else {
                let r = r.strip_suffix('/').unwrap_or(r);
                format!("{r}/{source}")
            }
        }
        _ => source.to_string(),
    }
}

/// JSON string literal writer (own escaper). With `ascii_only`, non-ASCII characters are
/// written as `\uXXXX` escapes (surrogate pairs for astral characters).
pub fn json_str(s: &str, ascii_only: bool) -> String {
    let mut o = String::with_capacity(s.len() + 2);
    o.push('"');
    for ch in s.chars() {
        match ch {
            '"' => o.push_str("\\\""),
            '\\' => o.push_str("\\\\"),
            '\n' => o.push_str("\\n"),
            '\r' => o.push_str("\\r"),
            '\t' => o.push_str("\\t"),
            '\u{8}' if ascii_only => o.push_str("\\b"),
            '\u{c}' if ascii_only => o.push_str("\\f"),
            // (the solidus may be escaped, hex digits may be upper case: all legal JSON)
            '/' if ascii_only => o.push_str("\\/"),
            c if (c as u32) < 0x20 => o.push_str(&format!("\\u{:04x}", c as u32)),
            c if ascii_only && !c.is_ascii() => {
                let mut buf = [0u16; 2];
                for u in c.encode_utf16(&mut buf) {
                    if *u % 2 == 0 {
                        o.push_str(&format!("\\u{:04x}", u));
                    } else {
                        o.push_str(&format!("\\u{:04X}", u));
                    }
                }
            }
            c => o.push(c),
        }
    }
    o.push('"');
    o
}

pub fn json_opt_str(s: &Option<String>, ascii_only: bool) -> String {
    match s {
        Some(s) => json_str(s, ascii_only),
        None => "null".into(),
    }
}

/// Assembles a JSON object from already rendered `(key, value)` pairs in the given order.
pub fn json_object(pairs: &[(String, String)], spaced: bool) -> String {
    let mut o = String::from("{");
    for (i, (k, v)) in pairs.iter().enumerate() {
        if i > 0 {
            o.push(',');
        }
        if spaced {
            // every kind of JSON white space
            o.push_str(if i % 2 == 0 { "\n  " } else { "\r\n\t " });
        }
        // JSON allows escapes in keys as in any string: in the spaced style every key of even length
        // gets its first character written as \uXXXX ("\u006dappings", "\u0073ections", ...)
        if spaced && k.len() % 2 == 0 && k.is_ascii() && !k.is_empty() {
            o.push_str(&format!("\"\\u{:04x}{}\"", k.as_bytes()[0], &k[1..]));
        } else {
            o.push_str(&json_str(k, false));
        }
        o.push(':');
        if spaced {
            o.push(' ');
        }
        o.push_str(v);
    }
    if spaced {
        o.push('\n');
    }
    o.push('}');
    o
}

/// Own standard base64 (with padding) writer, for data URLs.
pub fn base64(data: &[u8]) -> String {
    let mut o = String::new();
    for chunk in data.chunks(3) {
        let b = [
            chunk[0],
            chunk.get(1).copied().unwrap_or(0),
            chunk.get(2).copied().unwrap_or(0),
        ];
        let n = (u32::from(b[0]) << 16) | (u32::from(b[1]) << 8) | u32::from(b[2]);
        o.push(vlq::ALPHABET[(n >> 18) as usize & 63] as char);
        o.push(vlq::ALPHABET[(n >> 12) as usize & 63] as char);
        if chunk.len() > 1 {
            o.push(vlq::ALPHABET[(n >> 6) as usize & 63] as char);
        } else {
            o.push('=');
        }
        if chunk.len() > 2 {
            o.push(vlq::ALPHABET[n as usize & 63] as char);
        } else {
            o.push('=');
        }
    }
    o
}
