#!/bin/bash
# Run once after a fresh restore, offline: builds the harness (and the fuzz targets used by
# the thorough tiers) from files on disk only.
set -e
export CARGO_NET_OFFLINE=true
export PATH="$HOME/.cargo/bin:$PATH"
cd /verif/harness
cargo build --release --offline 2>&1 | tail -3
