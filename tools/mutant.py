#!/usr/bin/env python3
"""Sensitivity mutants: small edits of /repo that compile (and, with --tests, pass the
repository's own test suite) but break a listed property. Each mutant is applied to the
working tree of /repo, the named checks are run in the quick tier, and the tree is restored
(git checkout) whatever happens.

  tools/mutant.py list
  tools/mutant.py run <name>... [--tests] [--tier quick|thorough]
  tools/mutant.py all [--tests]            # every mutant, results -> SENSITIVITY.json
"""
import json, os, subprocess, sys, time

sys.path.insert(0, os.path.dirname(__file__))
from mutants_table import MUTANTS  # noqa: E402

REPO = "/repo"
VERIF = "/verif"
# MUTANT_SCRATCH=1: work in a private copy of /repo HEAD and of /verif (/root/scratch/mut/wmutant)
# instead of /repo itself (needed while a background run is using /repo)
if os.environ.get("MUTANT_SCRATCH"):
    import mutsweep  # noqa: E402
    _w = "/root/scratch/mut/w" + os.environ.get("MUTANT_WORKER", "mutant")
    if not os.path.exists(_w + "/verif/check") or os.environ.get("MUTANT_FRESH"):
        mutsweep.setup_worker(os.environ.get("MUTANT_WORKER", "mutant"))
    REPO = _w + "/repo"
    VERIF = _w + "/verif"


def sh(cmd, **kw):
    return subprocess.run(cmd, shell=True, capture_output=True, text=True, **kw)


def restore():
    sh(f"git -C {REPO} checkout -- .")


def apply(m):
    for (path, old, new) in m["edits"]:
        p = os.path.join(REPO, path)
        s = open(p).read()
        if s.count(old) != 1:
            raise SystemExit(f"mutant {m['name']}: pattern occurs {s.count(old)} times in {path}: {old!r}")
        open(p, "w").write(s.replace(old, new))


def run_one(m, tests, tier):
    res = {"name": m["name"], "property": m["checks"], "what": m["what"]}
    if sh(f"git -C {REPO} status --porcelain").stdout.strip():
        raise SystemExit("/repo working tree is not clean")
    try:
        apply(m)
        if tests:
            t = sh(f"cd {REPO} && cargo test --offline 2>&1 | grep -E '^test result|FAILED|error' ")
            res["repo_tests_pass"] = ("FAILED" not in t.stdout and "error" not in t.stdout and "test result: ok" in t.stdout)
        res["checks"] = {}
        for cid in m["checks"]:
            t0 = time.time()
            r = sh(f"cd {VERIF} && ./check {cid} --tier {tier}")
            viol = [l for l in r.stdout.splitlines() if l.startswith("VIOLATION")]
            fail = [l for l in r.stdout.splitlines() if l.startswith("failure in") or l.startswith("regress case")]
            res["checks"][cid] = {"exit": r.returncode, "violation": bool(viol), "wall_s": round(time.time() - t0, 1),
                                  "reason": (fail[0][:300] if fail else r.stdout[-300:] if r.returncode else "")}
    finally:
        restore()
    return res


def main():
    args = sys.argv[1:]
    if not args or args[0] == "list":
        for m in MUTANTS:
            print(f"{m['name']:40s} {','.join(m['checks']):12s} {m['what']}")
        return
    tests = "--tests" in args
    tier = "quick"
    if "--tier" in args:
        tier = args[args.index("--tier") + 1]
    names = [a for a in args[1:] if not a.startswith("--") and a not in ("quick", "thorough")]
    if args[0] == "all":
        sel = MUTANTS
    else:
        sel = [m for m in MUTANTS if m["name"] in names or any(m["name"].startswith(n) for n in names)]
    # results are merged by mutant name into SENSITIVITY.json after every mutant
    path = "/verif/SENSITIVITY.json"
    try:
        results = {r["name"]: r for r in json.load(open(path))}
    except Exception:
        results = {}
    for m in sel:
        try:
            r = run_one(m, tests, tier)
        except SystemExit as e:
            print("SKIPPED", m["name"], e)
            restore()
            continue
        caught = any(c["exit"] == 1 and c["violation"] for c in r["checks"].values())
        r["caught"] = caught
        r["caught_by"] = sorted(k for k, c in r["checks"].items() if c["exit"] == 1 and c["violation"])
        print(("CAUGHT " if caught else "MISSED ") + m["name"], json.dumps(r["checks"])[:600], "tests_pass=" + str(r.get("repo_tests_pass")), flush=True)
        results[m["name"]] = r
        order = [x["name"] for x in MUTANTS]
        json.dump(sorted(results.values(), key=lambda r: order.index(r["name"]) if r["name"] in order else 9999), open(path, "w"), indent=1)


main()
