//! C17 — function-name resolution finds the original name of the enclosing function.

use std::sync::Arc;

use proptest::collection::vec;
use proptest::prelude::*;
use serde::{Deserialize, Serialize};
use sourcemap::{DecodedMap, RawToken, SourceMap, SourceMapIndex, SourceMapSection, SourceView};

use super::common::ref_lookup_index;
use crate::engine::{gen_sub, guard, Obs, PropertyDef, Sub, Tier, Verdict};
use crate::model::idx16;

pub const MIN_NAMES: &[&str] = &[
    "a", "b", "ab", "a1", "$", "_x", "é", "aé", "λ", "变x", "𝒳", "x𝒳", "a\u{200c}b", "fn", "f", "abc", "e\u{301}t", "n\u{663}", "x\u{203f}y", "x", "let", "static", "yield", "await", "of",
];
pub const ORIG_NAMES: &[&str] = &["origA", "origB", "original_fn", "Ω", "", "render"];
pub const STRINGS: &[&str] = &["\"😀\"", "'𝒳 é'", "\"function a\"", "`é😀`", "\"\""];
pub const PADS: &[&str] = &[" ", "  ", "\t", "\u{a0}", "\u{2003} ", ""];
const NON_IDENTIFIERS: &[&str] = &["", " a", "a.b", "1a", "a b", "a-", "\"a\"", "\u{200c}a", "a ", "\u{301}a", "\u{663}n", "\u{203f}x"];

#[derive(Clone, Debug, Hash, Serialize, Deserialize)]
pub enum Piece {
    /// `function NAME(x){`
    Func(u8),
    /// `var NAME=1;`
    Var(u8),
    /// `NAME();`
    Call(u8),
    Str(u8),
    Pad(u8),
    Close,
    /// `q;` repeated n times, one token each
    Filler(u8),
    /// a string literal of `len` ASCII characters with one wide character at `wide_at`
    LongStr { len: u16, wide_at: u16 },
}

#[derive(Clone, Debug, Hash, Serialize, Deserialize)]
pub struct PieceSpec {
    pub piece: Piece,
    pub keep: [bool; 3],
    pub names: [Option<u8>; 3],
}

#[derive(Clone, Debug, Hash, Serialize, Deserialize)]
pub struct Extra {
    pub line: u8,
    pub col: u16,
    /// 0 = on a character boundary inside the line, 1 = past the end, 2 = inside a surrogate pair
    pub kind: u8,
    pub name: Option<u8>,
}

#[derive(Clone, Debug, Hash, Serialize, Deserialize)]
pub struct Case {
    pub lines: Vec<Vec<PieceSpec>>,
    pub extra: Vec<Extra>,
    pub extra_candidates: Vec<String>,
    /// wrap the map into an index with one section at this offset (K2 class if non-zero)
    pub index_offset: Option<(u32, u32)>,
    /// further mappings at the generated position of an existing token (selected by the first
    /// number), with a name of their own
    #[serde(default)]
    pub dups: Vec<(u16, Option<u8>)>,
}

fn pick<'a>(pool: &'a [&'a str], i: u8) -> &'a str {
    pool[i as usize % pool.len()]
}

fn len16(s: &str) -> u32 {
    s.chars().map(|c| c.len_utf16() as u32).sum()
}

/// Text of a piece and the UTF-16 offsets (relative to the piece) of its token candidates.
fn piece_text(p: &Piece) -> (String, Vec<u32>) {
    match p {
        Piece::Func(n) => {
            let name = pick(MIN_NAMES, *n);
            (format!("function {name}(x){{"), vec![0, 9, 9 + len16(name)])
        }
        Piece::Var(n) => {
            let name = pick(MIN_NAMES, *n);
            (format!("var {name}=1;"), vec![0, 4, 4 + len16(name)])
        }
        Piece::Call(n) => {
            let name = pick(MIN_NAMES, *n);
            (format!("{name}();"), vec![0, len16(name)])
        }
        Piece::Str(i) => (pick(STRINGS, *i).to_string(), vec![0]),
        Piece::Pad(i) => (pick(PADS, *i).to_string(), vec![0]),
        Piece::Close => ("}".to_string(), vec![0]),
        Piece::LongStr { len, wide_at } => {
            let len = *len as usize;
            let at = *wide_at as usize % (len + 1);
            (format!("\"{}é{}\"", "x".repeat(at), "y".repeat(len - at)), vec![0])
        }
        Piece::Filler(n) => {
            let n = *n as u32;
            ("q;".repeat(n as usize), (0..n).map(|k| 2 * k).collect())
        }
    }
}

#[derive(Clone, Debug)]
struct Tok {
    line: u32,
    col: u32,
    name: Option<String>,
}

struct Program {
    lines: Vec<String>,
    tokens: Vec<Tok>,
    /// some token sits inside a surrogate pair: crash-freedom only
    ambiguous: bool,
}

fn build_program(c: &Case) -> Program {
    let mut lines = vec![];
    let mut tokens: Vec<Tok> = vec![];
    for (li, specs) in c.lines.iter().enumerate() {
        let mut text = String::new();
        for s in specs {
            let (t, offs) = piece_text(&s.piece);
            let base = len16(&text);
            for (k, o) in offs.iter().enumerate() {
                let keep = match s.piece {
                    Piece::Filler(_) => true,
                    _ => s.keep[k.min(2)],
                };
                if keep {
                    let name = match s.piece {
                        Piece::Filler(_) => None,
                        _ => s.names[k.min(2)].map(|i| pick(ORIG_NAMES, i).to_string()),
                    };
                    tokens.push(Tok { line: li as u32, col: base + o, name });
                }
            }
            text.push_str(&t);
        }
        lines.push(text);
    }
    let mut ambiguous = false;
    for e in &c.extra {
        let line = e.line as usize % (lines.len() + 1);
        let text = lines.get(line).map(|s| s.as_str()).unwrap_or("");
        let mut bounds = vec![0u32];
        let mut inside = vec![];
        let mut acc = 0;
        for ch in text.chars() {
            if ch.len_utf16() == 2 {
                inside.push(acc + 1);
            }
            acc += ch.len_utf16() as u32;
            bounds.push(acc);
        }
        let col = match e.kind % 3 {
            0 => bounds[idx16(e.col, bounds.len())],
            1 => acc + u32::from(e.col % 7),
            _ => {
                if inside.is_empty() {
                    bounds[idx16(e.col, bounds.len())]
                } else {
                    ambiguous = true;
                    inside[idx16(e.col, inside.len())]
                }
            }
        };
        tokens.push(Tok { line: line as u32, col, name: e.name.map(|i| pick(ORIG_NAMES, i).to_string()) });
    }
    // distinct positions (keep the first), sorted
    tokens.sort_by_key(|t| (t.line, t.col));
    tokens.dedup_by_key(|t| (t.line, t.col));
    for (sel, name) in &c.dups {
        if tokens.is_empty() {
            break;
        }
        let j = idx16(*sel, tokens.len());
        let t = Tok { line: tokens[j].line, col: tokens[j].col, name: name.map(|i| pick(ORIG_NAMES, i).to_string()) };
        tokens.insert(j + 1, t);
    }
    Program { lines, tokens, ambiguous }
}

// --- reference -------------------------------------------------------------------------------

fn ref_is_start(c: char) -> bool {
    c.is_ascii_alphabetic() || c == '$' || c == '_' || matches!(c, 'é' | 'λ' | '变' | '𝒳' | 'Ω')
}

fn ref_is_continue(c: char) -> bool {
    // (also characters that may continue but not start an identifier: a combining mark, a
    // non-ASCII digit, connector punctuation - ID_Continue \ ID_Start)
    ref_is_start(c) || c.is_ascii_digit() || c == '\u{200c}' || c == '\u{200d}' || matches!(c, '\u{301}' | '\u{663}' | '\u{203f}')
}

fn ref_is_identifier(s: &str) -> bool {
    let mut it = s.chars();
    match it.next() {
        Some(c) if ref_is_start(c) => it.all(ref_is_continue),
        _ => false,
    }
}

/// Text of the token at (line, UTF-16 column): skip whitespace, take the identifier prefix of
/// the first whitespace-delimited word. Computed from the line start every time.
fn ref_token_text(lines: &[String], line: u32, col: u32) -> Option<String> {
    let text = lines.get(line as usize)?;
    let mut units = 0u32;
    let mut byte = text.len();
    for (i, ch) in text.char_indices() {
        if units >= col {
            byte = i;
            break;
        }
        units += ch.len_utf16() as u32;
    }
    if byte >= text.len() {
        return None;
    }
    let rest = &text[byte..];
    let word: String = rest.chars().skip_while(|c| c.is_whitespace()).take_while(|c| !c.is_whitespace()).collect();
    let mut it = word.chars();
    let first = it.next()?;
    if !ref_is_start(first) {
        return None;
    }
    let mut id = String::new();
    id.push(first);
    for ch in it {
        if ref_is_continue(ch) {
            id.push(ch);
        } else {
            break;
        }
    }
    Some(id)
}

/// Every answer the statement allows. The walk starts at the looked-up token: for an exact hit
/// the first token at that position, otherwise any token of the group sharing the greatest
/// position not after the query (C04) - one answer unless tokens share that position.
fn ref_resolve_all(p: &Program, q: (u32, u32), name: &str) -> Vec<Option<String>> {
    let pos: Vec<(u32, u32)> = p.tokens.iter().map(|t| (t.line, t.col)).collect();
    let Some(first) = ref_lookup_index(&pos, q) else { return vec![None] };
    let starts: Vec<usize> = if pos[first] == q { vec![first] } else { (0..pos.len()).filter(|k| pos[*k] == pos[first]).collect() };
    let mut out: Vec<Option<String>> = vec![];
    for t0 in starts {
        let a = ref_resolve_from(p, t0, name).flatten();
        if !out.contains(&a) {
            out.push(a);
        }
    }
    out
}

/// `Some(answer)` where answer is the (possibly absent) original name; `None` = nothing found.
fn ref_resolve(p: &Program, q: (u32, u32), name: &str) -> Option<Option<String>> {
    let pos: Vec<(u32, u32)> = p.tokens.iter().map(|t| (t.line, t.col)).collect();
    let t0 = ref_lookup_index(&pos, q)?;
    ref_resolve_from(p, t0, name)
}

fn ref_resolve_from(p: &Program, t0: usize, name: &str) -> Option<Option<String>> {
    if !ref_is_identifier(name) {
        return None;
    }
    for k in 0..128usize {
        if k > t0 {
            break;
        }
        let i = t0 - k;
        let text = ref_token_text(&p.lines, p.tokens[i].line, p.tokens[i].col);
        if text.as_deref() == Some(name) && k + 1 < 128 && i >= 1 {
            let prev = &p.tokens[i - 1];
            if ref_token_text(&p.lines, prev.line, prev.col).as_deref() == Some("function") {
                return Some(p.tokens[i].name.clone());
            }
        }
    }
    None
}

// --- check -----------------------------------------------------------------------------------

fn build_map(p: &Program) -> SourceMap {
    let names: Vec<String> = {
        let mut v: Vec<String> = p.tokens.iter().filter_map(|t| t.name.clone()).collect();
        v.sort();
        v.dedup();
        v
    };
    let tokens: Vec<RawToken> = p
        .tokens
        .iter()
        .enumerate()
        .map(|(i, t)| RawToken {
            dst_line: t.line,
            dst_col: t.col,
            src_line: i as u32,
            src_col: 0,
            src_id: if i % 7 == 3 && t.name.is_none() { !0 } else { 0 },
            name_id: match &t.name {
                Some(n) => names.iter().position(|x| x == n).unwrap() as u32,
                None => !0,
            },
            is_range: false,
        })
        .rev() // inserted in reverse order: the constructor has to sort
        .collect();
    SourceMap::new(
        None,
        tokens,
        names.iter().map(|s| Arc::<str>::from(s.as_str())).collect(),
        vec![Arc::<str>::from("orig.js")],
        None,
    )
}

fn check(c: &Case, obs: &mut Obs) -> Verdict {
    let mut p = build_program(c);
    let text = p.lines.join("\n");
    let sv = SourceView::new(text.clone().into());
    let sm = build_map(&p);
    if !c.dups.is_empty() {
        // tokens sharing a position come out in an order the constructor does not promise: the walk
        // is defined on the map's own token order, so the model follows it (original line = model index)
        let actual: Vec<Tok> = sm.tokens().map(|t| p.tokens[t.get_src_line() as usize].clone()).collect();
        if actual.len() != p.tokens.len() || actual.windows(2).any(|w| (w[0].line, w[0].col) > (w[1].line, w[1].col)) {
            return Verdict::Fail("the map built from the tokens has a different number of tokens or is not ordered".into());
        }
        p.tokens = actual;
        obs.class("tokens-sharing-a-generated-position");
    }
    // candidate names
    let mut cands: Vec<String> = vec!["function".into()];
    for line in &c.lines {
        for s in line {
            if let Piece::Func(n) | Piece::Var(n) | Piece::Call(n) = &s.piece {
                let name = pick(MIN_NAMES, *n);
                cands.push(name.to_string());
                cands.push(format!("{name}x"));
                let mut cs: Vec<char> = name.chars().collect();
                if cs.len() > 1 {
                    cs.pop();
                    cands.push(cs.into_iter().collect());
                }
            }
        }
    }
    cands.extend(NON_IDENTIFIERS.iter().map(|s| s.to_string()));
    cands.extend(c.extra_candidates.iter().cloned());
    cands.sort();
    cands.dedup();
    // queries
    let mut qs: Vec<(u32, u32)> = vec![(0, 0), (u32::MAX, u32::MAX)];
    // long programs (window tests): query around the far end and the beginning only
    let many = p.tokens.len() > 100 || p.lines.iter().any(|l| l.len() > 700);
    for (i, t) in p.tokens.iter().enumerate() {
        if many && i > 3 && i + 14 < p.tokens.len() {
            continue;
        }
        qs.extend([(t.line, t.col), (t.line, t.col + 1), (t.line + 1, 0), (t.line, t.col.saturating_sub(1))]);
    }
    if many {
        cands.retain(|c| ref_is_identifier(c) && !c.ends_with('x') || c == "a b" || c.is_empty());
    }
    qs.sort();
    qs.dedup();
    let pos: Vec<(u32, u32)> = p.tokens.iter().map(|t| (t.line, t.col)).collect();

    let wrapped: Option<SourceMapIndex> = c.index_offset.map(|off| {
        SourceMapIndex::new(None, vec![SourceMapSection::new(off, None, Some(DecodedMap::Regular(sm.clone())))])
    });
    let as_decoded = DecodedMap::Regular(sm.clone());

    let mut positive = 0u32;
    let mut inexact = false;
    let mut shadowed = false;
    for q in &qs {
        for name in &cands {
            obs.inner_evals += 1;
            let got = match guard(|| sm.get_original_function_name(q.0, q.1, name, &sv).map(str::to_string)) {
                Ok(g) => g,
                Err(pn) => return Verdict::Fail(format!("get_original_function_name{q:?} {name:?} on {text:?}: {pn}")),
            };
            let got2 = match guard(|| as_decoded.get_original_function_name(q.0, q.1, Some(name), Some(&sv)).map(str::to_string)) {
                Ok(g) => g,
                Err(pn) => return Verdict::Fail(format!("DecodedMap::get_original_function_name{q:?} {name:?}: {pn}")),
            };
            if p.ambiguous {
                continue; // a token column inside a surrogate pair: crash-freedom only
            }
            let acceptable = ref_resolve_all(&p, *q, name);
            let want = ref_resolve(&p, *q, name).flatten();
            if !acceptable.contains(&got) || got2 != got {
                return Verdict::Fail(format!(
                    "get_original_function_name({}, {}, {name:?}) = {got:?} (via DecodedMap: {got2:?}); the reference walk gives {acceptable:?}. text={text:?} tokens={:?}",
                    q.0,
                    q.1,
                    p.tokens.iter().map(|t| (t.line, t.col, t.name.clone())).collect::<Vec<_>>()
                ));
            }
            if want.is_some() {
                positive += 1;
                if let Some(i) = ref_lookup_index(&pos, *q) {
                    if pos[i] != *q {
                        inexact = true;
                    }
                    // the candidate occurs as a non-declaration token before its declaration is reached
                    let mut seen_plain = false;
                    for k in 0..=i.min(127) {
                        let t = &p.tokens[i - k];
                        if ref_token_text(&p.lines, t.line, t.col).as_deref() == Some(name.as_str()) {
                            let decl = i - k >= 1 && ref_token_text(&p.lines, p.tokens[i - k - 1].line, p.tokens[i - k - 1].col).as_deref() == Some("function");
                            if decl {
                                break;
                            }
                            seen_plain = true;
                        }
                    }
                    if seen_plain {
                        shadowed = true;
                    }
                }
            }
            // index wrapper
            if let (Some(ix), Some(off)) = (&wrapped, c.index_offset) {
                let goti = match guard(|| ix.get_original_function_name(q.0, q.1, name, &sv).map(str::to_string)) {
                    Ok(g) => g,
                    Err(pn) => return Verdict::Fail(format!("SourceMapIndex::get_original_function_name{q:?} {name:?}: {pn}")),
                };
                if off == (0, 0) {
                    if !acceptable.contains(&goti) {
                        return Verdict::Fail(format!("index (single section at the origin): get_original_function_name{q:?} {name:?} = {goti:?}, expected {want:?}"));
                    }
                } else {
                    // the minified text for a section at `off` is the program moved to `off`
                    // (checked below on a shifted program); here only crash-freedom
                }
            }
        }
    }
    // K2 class: section at a non-zero offset, minified text shifted accordingly
    if let (Some(ix), Some(off)) = (&wrapped, c.index_offset) {
        if off != (0, 0) && !p.ambiguous {
            let mut shifted = String::new();
            for _ in 0..off.0 {
                shifted.push('\n');
            }
            shifted.push_str(&" ".repeat(off.1 as usize));
            shifted.push_str(&text);
            let svs = SourceView::new(shifted.into());
            let flat = match ix.flatten() {
                Ok(f) => f,
                Err(e) => return Verdict::Fail(format!("flatten: {e}")),
            };
            let mut k2: Option<String> = None;
            for t in flat.tokens() {
                for name in cands.iter().filter(|n| ref_is_identifier(n)) {
                    let (l, cc) = t.get_dst();
                    let by_flat = flat.get_original_function_name(l, cc, name, &svs).map(str::to_string);
                    let by_index = match guard(|| ix.get_original_function_name(l, cc, name, &svs).map(str::to_string)) {
                        Ok(g) => g,
                        Err(pn) => return Verdict::Fail(format!("SourceMapIndex::get_original_function_name({l},{cc}) {name:?}: {pn}")),
                    };
                    if by_index != by_flat && k2.is_none() {
                        k2 = Some(format!(
                            "section at offset {off:?}: SourceMapIndex::get_original_function_name({l}, {cc}, {name:?}) = {by_index:?}, the flattened map answers {by_flat:?}"
                        ));
                    }
                }
            }
            obs.class("index-section-at-non-zero-offset(K2 class)");
            if let Some(w) = k2 {
                obs.excluded_known += 1;
                return Verdict::Known("K2", w);
            }
        }
    }
    obs.class_if(wrapped.is_some() && c.index_offset == Some((0, 0)), "index-wrapper-at-origin");
    obs.class_if(p.ambiguous, "token-inside-surrogate-pair(crash-freedom only)");
    obs.class_if(positive > 0, "positive-resolution");
    obs.class_if(inexact, "positive-after-inexact-lookup");
    obs.class_if(shadowed, "candidate-seen-as-non-declaration-first");
    obs.class_if(p.tokens.len() > 130, ">130-tokens(window)");
    let nfunc = c.lines.iter().flatten().filter(|s| matches!(s.piece, Piece::Func(_))).count();
    let non_ascii_before = p.lines.iter().any(|l| match l.find("function") {
        Some(_) => {
            // non-ASCII text before the *last* declaration of the line
            l.rfind("function").map(|i| !l[..i].is_ascii()).unwrap_or(false)
        }
        None => false,
    });
    obs.class_if(non_ascii_before, "non-ascii-before-declaration");
    if nfunc >= 2 && non_ascii_before && inexact && shadowed {
        obs.nontrivial();
    }
    Verdict::Pass
}

// --- generators ------------------------------------------------------------------------------

fn piece() -> BoxedStrategy<Piece> {
    prop_oneof![
        4 => (0u8..MIN_NAMES.len() as u8).prop_map(Piece::Func),
        2 => (0u8..MIN_NAMES.len() as u8).prop_map(Piece::Var),
        3 => (0u8..MIN_NAMES.len() as u8).prop_map(Piece::Call),
        2 => (0u8..5).prop_map(Piece::Str),
        2 => (0u8..6).prop_map(Piece::Pad),
        1 => Just(Piece::Close),
        1 => (1u8..6).prop_map(Piece::Filler),
    ]
    .boxed()
}

fn spec() -> BoxedStrategy<PieceSpec> {
    (
        piece(),
        [proptest::bool::weighted(0.8), proptest::bool::weighted(0.85), proptest::bool::weighted(0.3)],
        [proptest::option::weighted(0.3, 0u8..6), proptest::option::weighted(0.8, 0u8..6), proptest::option::weighted(0.2, 0u8..6)],
    )
        .prop_map(|(piece, keep, names)| PieceSpec { piece, keep, names })
        .boxed()
}

fn extra() -> BoxedStrategy<Extra> {
    (any::<u8>(), any::<u16>(), prop_oneof![6 => Just(0u8), 3 => Just(1u8), 1 => Just(2u8)], proptest::option::weighted(0.3, 0u8..6))
        .prop_map(|(line, col, kind, name)| Extra { line, col, kind, name })
        .boxed()
}

fn programs(_t: Tier) -> BoxedStrategy<Case> {
    (
        vec(vec(spec(), 0..9), 1..5),
        vec(extra(), 0..4),
        vec(prop_oneof![proptest::sample::select(MIN_NAMES).prop_map(|s| s.to_string()), "[a-c$_]{1,3}".prop_map(|s| s)], 0..3),
        prop_oneof![6 => Just(None), 2 => Just(Some((0u32, 0u32))), 2 => (0u32..3, 0u32..9).prop_map(Some)],
    )
        .prop_map(|(lines, extra, extra_candidates, index_offset)| Case { lines, extra, extra_candidates, index_offset, dups: vec![] })
        .boxed()
}

/// Programs whose maps have several mappings at one generated position, with names of their own.
fn duplicate_positions(t: Tier) -> BoxedStrategy<Case> {
    (programs(t), vec((any::<u16>(), proptest::option::weighted(0.85, 0u8..6)), 1..4))
        .prop_map(|(mut c, dups)| {
            c.dups = dups;
            c.index_offset = None;
            c
        })
        .boxed()
}

/// A declaration followed by a long run of filler tokens: the walk-back window (128 tokens
/// including the looked-up one) is crossed at distances around its boundary.
fn window(_t: Tier) -> BoxedStrategy<Case> {
    (0u8..16, 118u32..140, proptest::option::weighted(0.9, 0u8..6), any::<bool>(), 0u8..16)
        .prop_map(|(name, fill, orig, same_line, callee)| {
            let mut first = vec![
                PieceSpec { piece: Piece::Func(name), keep: [true, true, false], names: [None, orig, None] },
            ];
            let mut fillers = vec![];
            let mut left = fill;
            while left > 0 {
                let n = left.min(100);
                fillers.push(PieceSpec { piece: Piece::Filler(n as u8), keep: [true; 3], names: [None; 3] });
                left -= n;
            }
            let call = PieceSpec { piece: Piece::Call(callee), keep: [true, false, false], names: [None; 3] };
            let lines = if same_line {
                first.extend(fillers);
                first.push(call);
                vec![first]
            } else {
                let mut second = fillers;
                second.push(call);
                vec![first, second]
            };
            Case { lines, extra: vec![], extra_candidates: vec![], index_offset: None, dups: vec![] }
        })
        .boxed()
}

/// Declarations followed by more than a kilobyte of text on the same line (string literals
/// with a wide character at a generated byte offset): token text is read far from the line end.
fn long_lines(_t: Tier) -> BoxedStrategy<Case> {
    (0u8..16, 980u16..1100, any::<u16>(), proptest::option::weighted(0.9, 0u8..6), vec(spec(), 0..4), any::<bool>())
        .prop_map(|(name, len, wide_at, orig, mut tail, before)| {
            let func = PieceSpec { piece: Piece::Func(name), keep: [true, true, false], names: [None, orig, None] };
            let long = PieceSpec { piece: Piece::LongStr { len, wide_at }, keep: [true, false, false], names: [None; 3] };
            let call = PieceSpec { piece: Piece::Call(name), keep: [true, false, false], names: [None; 3] };
            let mut line = if before { vec![long.clone(), func] } else { vec![func, long.clone()] };
            tail.retain(|s| !matches!(s.piece, Piece::Filler(_)));
            line.append(&mut tail);
            line.push(call);
            Case { lines: vec![line], extra: vec![], extra_candidates: vec![], index_offset: None, dups: vec![] }
        })
        .boxed()
}

fn subs() -> Vec<Sub> {
    vec![
        gen_sub("long_lines", long_lines, |t| t.pick(600, 12_000), check),
        gen_sub("programs", programs, |t| t.pick(6_000, 200_000), check),
        gen_sub("duplicate_positions", duplicate_positions, |t| t.pick(3_000, 100_000), check),
        gen_sub("window_boundary", window, |t| t.pick(600, 12_000), check),
    ]
}

pub const DEF: PropertyDef = PropertyDef {
    id: "C17",
    rule: "programs: 1..4 lines of pieces (function NAME(x){ / var NAME=1; / NAME(); / string literals with astral characters / Unicode \
           whitespace / filler tokens) over 16 identifiers incl. non-ASCII, astral, joiner-containing ones and names that are prefixes of \
           one another; tokens on keywords, names, parentheses, whitespace in front of names, past the end of lines, on missing lines; \
           queries = every token position, +-1 column, next line x candidates = every identifier of the program, its extension and its \
           truncation, 'function', non-identifiers. window_boundary: a declaration followed by 118..139 filler tokens. Oracle: independent \
           walk (<= 128 tokens incl. the looked-up one, text read at UTF-16 columns from the line start). Index maps: one section at the \
           origin must agree; a section at a non-zero offset is the K2 class. duplicate_positions: several mappings at one generated position with names of their own (the walk follows the token order of the map itself; inexact lookups accept any token of the group). Non-trivial = >= 2 functions, non-ASCII text before a \
           declaration, a positive answer after an inexact lookup and a candidate seen as a non-declaration token before its declaration",
    assumptions: &[
        "identifier classification is restricted to a pool whose Unicode status is unambiguous (ASCII, é, λ, 变, 𝒳, Ω, ZWNJ/ZWJ)",
        "token positions are pairwise distinct; a token column inside a surrogate pair is executed for crash-freedom only",
        "K2: SourceMapIndex::get_original_function_name for sections at a non-zero offset is a recorded finding",
    ],
    subs,
};
