//! C16 — a SourceView shared between threads answers as if accessed by one.
//!
//! The harness owns the schedule: under `--cfg sourcemap_verif`, `SourceView::get_line`
//! calls `verif_hooks::yield_point(n)` where it holds no lock. Every scenario thread parks
//! at each yield point and before each call; a controller releases exactly one parked thread
//! at a time, chosen by the next element of the schedule. An execution is therefore a
//! deterministic function of (text, per-thread call lists, schedule): replayable, shrinkable
//! and — for small shapes — enumerable exhaustively.

use std::cell::RefCell;
use std::sync::{Arc, Barrier, Mutex};

use proptest::collection::vec;
use proptest::prelude::*;
use serde::{Deserialize, Serialize};
use serde_json::json;
use sourcemap::SourceView;

use super::c15::ref_lines;
use crate::engine::{custom_sub, enum_sub, gen_sub, guard, Ctx, Obs, PropertyDef, Sub, Tier, Verdict};

#[derive(Clone, Copy, Debug, Hash, PartialEq, Eq, Serialize, Deserialize)]
pub enum Call {
    GetLine(u32),
    LineCount,
    Lines,
}

#[derive(Clone, Debug, Hash, Serialize, Deserialize)]
pub struct Scenario {
    pub text: String,
    pub threads: Vec<Vec<Call>>,
}

#[derive(Clone, Debug, Hash, Serialize, Deserialize)]
pub struct Case {
    pub scenario: Scenario,
    /// `None`: explore every interleaving (DFS); `Some`: run exactly this schedule (choice
    /// indices into the runnable set; exhausted = always the first runnable thread)
    pub schedule: Option<Vec<u8>>,
}

#[derive(Clone, Debug, PartialEq, Eq)]
enum Answer {
    Line(Option<String>),
    Count(usize),
    All(Vec<String>),
    Panic(String),
}

#[derive(Clone, Copy, Debug, PartialEq, Eq)]
enum Ev {
    CallStart(usize),
    Yield(u32),
    CallEnd(usize),
    Finished,
}

const NOBODY: usize = usize::MAX;

/// Scheduler state of one execution. Hand-offs go through atomics that the waiting side
/// polls (no lock is shared between pollers and the running thread).
struct Shared {
    turn: std::sync::atomic::AtomicUsize,
    waiting: Vec<std::sync::atomic::AtomicBool>,
    done: Vec<std::sync::atomic::AtomicBool>,
    trace: Mutex<Vec<(usize, Ev)>>,
    /// handles for the wake-ups: the controller and the scenario threads (by id)
    controller: std::thread::Thread,
    threads: Vec<std::thread::Thread>,
    tids: Vec<Arc<std::sync::atomic::AtomicU64>>,
}

impl Shared {
    fn new(n: usize, threads: Vec<std::thread::Thread>, tids: Vec<Arc<std::sync::atomic::AtomicU64>>) -> Shared {
        use std::sync::atomic::{AtomicBool, AtomicUsize};
        Shared {
            controller: std::thread::current(),
            threads,
            tids,
            turn: AtomicUsize::new(NOBODY),
            waiting: (0..n).map(|_| AtomicBool::new(false)).collect(),
            done: (0..n).map(|_| AtomicBool::new(false)).collect(),
            trace: Mutex::new(vec![]),
        }
    }
    fn park(&self, id: usize, ev: Ev) {
        use std::sync::atomic::Ordering::{Acquire, Release};
        self.trace.lock().unwrap().push((id, ev));
        // give the turn back *before* reporting "parked": once the controller sees every
        // thread parked, no thread has a pending store to `turn` left
        self.turn.store(NOBODY, Release);
        self.waiting[id].store(true, Release);
        self.controller.unpark();
        let mut spins = 0u32;
        while self.turn.load(Acquire) != id {
            relax(&mut spins);
        }
        self.waiting[id].store(false, Release);
    }
    fn note(&self, id: usize, ev: Ev) {
        self.trace.lock().unwrap().push((id, ev));
    }
    fn finish(&self, id: usize) {
        use std::sync::atomic::Ordering::Release;
        self.trace.lock().unwrap().push((id, Ev::Finished));
        self.turn.store(NOBODY, Release);
        self.done[id].store(true, Release);
        self.controller.unpark();
    }
    fn quiescent(&self) -> bool {
        use std::sync::atomic::Ordering::Acquire;
        self.turn.load(Acquire) == NOBODY
            && (0..self.waiting.len()).all(|i| self.waiting[i].load(Acquire) || self.done[i].load(Acquire))
    }
}

thread_local! {
    static CUR: RefCell<Option<(Arc<Shared>, usize)>> = const { RefCell::new(None) };
    static POOL: RefCell<Pool> = RefCell::new(Pool::new());
}

pub static TIMEOUTS: std::sync::atomic::AtomicU64 = std::sync::atomic::AtomicU64::new(0);

struct Job {
    view: Arc<SourceView>,
    shared: Arc<Shared>,
    calls: Vec<Call>,
    id: usize,
}

/// Waiting step used by the scheduler hand-offs: spin briefly (a hand-off then costs well under
/// a microsecond instead of a futex round trip), then sleep until woken. Every store that a
/// waiter polls is followed by an `unpark` of that waiter; the time-out only bounds the cost of
/// a wake-up that raced with going to sleep. Sleeping waiters are what keeps the check fast on
/// a machine that is busy with other work: only the one thread that holds the turn needs a CPU.
fn relax(spins: &mut u32) {
    *spins = spins.wrapping_add(1);
    if *spins < 400 {
        std::hint::spin_loop();
    } else {
        std::thread::park_timeout(std::time::Duration::from_micros(if *spins < 2_000 { 200 } else { 2_000 }));
    }
}

type Slot = Arc<Mutex<Option<Job>>>;

/// Persistent scenario threads of one engine worker (jobs handed over through polled slots).
struct Pool {
    slots: Vec<Slot>,
    threads: Vec<std::thread::Thread>,
    /// kernel thread ids of the scenario threads (0 until the thread has started)
    tids: Vec<Arc<std::sync::atomic::AtomicU64>>,
    done: Arc<Mutex<Vec<(usize, Vec<Answer>)>>>,
}

impl Pool {
    fn new() -> Pool {
        Pool { slots: vec![], threads: vec![], tids: vec![], done: Arc::new(Mutex::new(vec![])) }
    }
    fn grow(&mut self) {
        let slot: Slot = Arc::new(Mutex::new(None));
        let mine = slot.clone();
        let done = self.done.clone();
        let tid = Arc::new(std::sync::atomic::AtomicU64::new(0));
        let my_tid = tid.clone();
        let h = std::thread::spawn(move || {
            // "/proc/thread-self" -> "<pid>/task/<tid>"
            if let Ok(l) = std::fs::read_link("/proc/thread-self") {
                if let Some(t) = l.file_name().and_then(|f| f.to_str()).and_then(|f| f.parse::<u64>().ok()) {
                    my_tid.store(t, std::sync::atomic::Ordering::Release);
                }
            }
            let mut spins = 0u32;
            loop {
                // the pool's owner dropped its handle: stop
                if Arc::strong_count(&mine) == 1 {
                    return;
                }
                let job = mine.lock().unwrap().take();
                let Some(job) = job else {
                    relax(&mut spins);
                    continue;
                };
                spins = 0;
                CUR.with(|c| *c.borrow_mut() = Some((job.shared.clone(), job.id)));
                let mut out = vec![];
                for (k, call) in job.calls.iter().enumerate() {
                    job.shared.park(job.id, Ev::CallStart(k));
                    out.push(perform(&job.view, *call));
                    job.shared.note(job.id, Ev::CallEnd(k));
                }
                CUR.with(|c| *c.borrow_mut() = None);
                done.lock().unwrap().push((job.id, out));
                job.shared.finish(job.id);
            }
        });
        self.threads.push(h.thread().clone());
        self.tids.push(tid);
        self.slots.push(slot);
    }
}

fn hook(n: u32) {
    // (2) and (3) are adjacent in the code: park at (1) and (2) only
    if n == 3 {
        return;
    }
    let cur = CUR.with(|c| c.borrow().clone());
    if let Some((sh, id)) = cur {
        sh.park(id, Ev::Yield(n));
    }
}

pub fn install_hook() {
    sourcemap::verif_hooks::set_yield_hook(Some(hook));
}

fn perform(view: &SourceView, call: Call) -> Answer {
    let r = guard(|| match call {
        Call::GetLine(i) => Answer::Line(view.get_line(i).map(str::to_string)),
        Call::LineCount => Answer::Count(view.line_count()),
        Call::Lines => Answer::All(view.lines().map(str::to_string).collect()),
    });
    match r {
        Ok(a) => a,
        Err(p) => Answer::Panic(p),
    }
}

fn expected(text: &str, call: Call) -> Answer {
    let lines = ref_lines(text);
    match call {
        Call::GetLine(i) => Answer::Line(lines.get(i as usize).map(|s| s.to_string())),
        Call::LineCount => Answer::Count(lines.len()),
        Call::Lines => Answer::All(lines.iter().map(|s| s.to_string()).collect()),
    }
}

struct Execution {
    answers: Vec<Vec<Answer>>,
    trace: Vec<(usize, Ev)>,
    /// (chosen index, number of runnable threads) at every decision
    decisions: Vec<(usize, usize)>,
    after: Vec<(Call, Answer)>,
    stalled: bool,
    /// set when the thread that holds the turn is asleep in the kernel inside a call on the view
    /// while every other scenario thread is parked by the scheduler (see `probe_deadlock`)
    deadlock: Option<String>,
}

/// (state, user+system clock ticks, voluntary+involuntary context switches) of a thread of this process
fn thread_sample(tid: u64) -> Option<(char, u64, u64)> {
    let stat = std::fs::read_to_string(format!("/proc/self/task/{tid}/stat")).ok()?;
    // "<tid> (<comm>) <state> ..." - comm may contain spaces: cut at the last ')'
    let rest = &stat[stat.rfind(')')? + 2..];
    let f: Vec<&str> = rest.split_whitespace().collect();
    let state = f.first()?.chars().next()?;
    let ticks = f.get(11)?.parse::<u64>().ok()? + f.get(12)?.parse::<u64>().ok()?;
    let status = std::fs::read_to_string(format!("/proc/self/task/{tid}/status")).ok()?;
    let mut sw = 0u64;
    for l in status.lines() {
        if l.starts_with("voluntary_ctxt_switches:") || l.starts_with("nonvoluntary_ctxt_switches:") {
            sw += l.split(':').nth(1)?.trim().parse::<u64>().ok()?;
        }
    }
    Some((state, ticks, sw))
}

/// Structural deadlock detection (not a time-out): under this scheduler exactly one scenario
/// thread - the one holding the turn - executes code of the crate; all others are parked *by the
/// scheduler* at points where they hold no lock of the view. If the turn holder is asleep in the
/// kernel (state S: blocked, not merely waiting for a CPU, which would be R), consumes no CPU time
/// and is not switched in or out over 40 samples spread over 2 s, while the scheduler state does
/// not change, it waits for something only another thread could provide - and no other thread can
/// run until it yields. That is a deadlock of this execution whatever the machine's load.
fn probe_deadlock(shared: &Shared) -> Option<String> {
    use std::sync::atomic::Ordering::Acquire;
    let x = shared.turn.load(Acquire);
    if x == NOBODY || shared.waiting[x].load(Acquire) || shared.done[x].load(Acquire) {
        return None;
    }
    let tid = shared.tids[x].load(Acquire);
    if tid == 0 {
        return None;
    }
    let first = thread_sample(tid)?;
    if first.0 != 'S' {
        return None;
    }
    for _ in 0..40 {
        std::thread::sleep(std::time::Duration::from_millis(50));
        if shared.turn.load(Acquire) != x || shared.waiting[x].load(Acquire) || shared.done[x].load(Acquire) {
            return None;
        }
        let s = thread_sample(tid)?;
        if s != first {
            return None;
        }
    }
    let trace = shared.trace.lock().ok().map(|t| t.clone()).unwrap_or_default();
    let last = trace.iter().rev().find(|e| e.0 == x).map(|e| e.1);
    Some(format!(
        "thread {x} is blocked inside its call (last event {last:?}; kernel state S, no CPU time and no context switch over 2 s) while every other thread is parked by the scheduler or done: nothing can ever wake it"
    ))
}

/// Runs one schedule. `choices[k]` picks among the runnable threads at decision k (clamped);
/// beyond the list the first runnable thread is chosen.
fn execute(sc: &Scenario, choices: &[u8]) -> Execution {
    let n = sc.threads.len();
    let view = Arc::new(SourceView::new(sc.text.clone().into()));
    POOL.with(|p| {
        let mut p = p.borrow_mut();
        while p.slots.len() < n {
            p.grow();
        }
    });
    let shared = Arc::new(POOL.with(|p| {
        let p = p.borrow();
        Shared::new(n, p.threads[..n].to_vec(), p.tids[..n].to_vec())
    }));
    // scenario threads come from a per-worker pool (spawning threads per execution costs more
    // than the execution and serialises on the process' address-space lock)
    POOL.with(|p| {
        let mut p = p.borrow_mut();
        while p.slots.len() < n {
            p.grow();
        }
        p.done.lock().unwrap().clear();
        for (id, calls) in sc.threads.iter().enumerate() {
            let job = Job { view: view.clone(), shared: shared.clone(), calls: calls.clone(), id };
            *p.slots[id].lock().unwrap() = Some(job);
            p.threads[id].unpark();
        }
    });
    let mut decisions = vec![];
    let mut stalled = false;
    let mut deadlock: Option<String> = None;
    loop {
        // wait until nobody runs: every thread is parked or done
        let started = std::time::Instant::now();
        let mut spins = 0u32;
        let mut probed_at = 0u64;
        while !shared.quiescent() {
            relax(&mut spins);
            let waited = started.elapsed();
            if spins > 2_000 && waited.as_millis() as u64 >= probed_at + 1_000 {
                probed_at = waited.as_millis() as u64;
                if let Some(d) = probe_deadlock(&shared) {
                    deadlock = Some(d);
                    stalled = true;
                    break;
                }
            }
            if spins % 4096 == 0 && waited.as_secs() >= 60 {
                stalled = true;
                break;
            }
        }
        if stalled {
            break;
        }
        use std::sync::atomic::Ordering::{Acquire, Release};
        let runnable: Vec<usize> = (0..n).filter(|i| shared.waiting[*i].load(Acquire) && !shared.done[*i].load(Acquire)).collect();
        if runnable.is_empty() {
            break;
        }
        let k = decisions.len();
        let pick = choices.get(k).map(|c| *c as usize).unwrap_or(0).min(runnable.len() - 1);
        decisions.push((pick, runnable.len()));
        shared.turn.store(runnable[pick], Release);
        shared.threads[runnable[pick]].unpark();
    }
    if stalled {
        // threads are stuck (deadlock inside the view?): do not wait for them
        POOL.with(|p| *p.borrow_mut() = Pool::new());
        return Execution { answers: vec![], trace: shared.trace.lock().unwrap().clone(), decisions, after: vec![], stalled, deadlock };
    }
    let mut answers: Vec<Vec<Answer>> = vec![vec![]; n];
    POOL.with(|p| {
        // every thread pushed its answers before it reported `done`
        for (id, a) in p.borrow().done.lock().unwrap().drain(..) {
            answers[id] = a;
        }
    });
    // the view must still be usable for later callers
    let last = ref_lines(&sc.text).len() as u32 - 1;
    let after = [Call::GetLine(0), Call::GetLine(last), Call::LineCount, Call::GetLine(last + 1)]
        .into_iter()
        .map(|c| (c, perform(&view, c)))
        .collect();
    let mut trace = shared.trace.lock().unwrap().clone();
    // the threads reach their first parking point concurrently: that prefix has no order
    let k = n.min(trace.len());
    trace[..k].sort_by_key(|e| e.0);
    Execution { answers, trace, decisions, after, stalled, deadlock }
}

/// Was some thread pre-empted between its finished check and its indexing lock while another
/// thread went through its own indexing section?
fn window_hit(trace: &[(usize, Ev)]) -> bool {
    for (i, (a, ev)) in trace.iter().enumerate() {
        if *ev != Ev::Yield(2) {
            continue;
        }
        // a's next own event marks the end of its pre-emption window
        let end = trace[i + 1..].iter().position(|(t, _)| t == a).map(|p| i + 1 + p).unwrap_or(trace.len());
        let mut in_section: Vec<usize> = vec![];
        for (b, e) in &trace[i + 1..end] {
            if *e == Ev::Yield(2) {
                in_section.push(*b);
            } else if in_section.contains(b) {
                return true; // b passed its yield(2) and came out of get_line's indexing section
            }
        }
    }
    false
}

fn judge(sc: &Scenario, ex: &Execution, schedule: &[u8]) -> Result<(), String> {
    if let Some(d) = &ex.deadlock {
        return Err(format!("deadlock on text {:?}, threads {:?}: {d}; schedule {schedule:?}", sc.text, sc.threads));
    }
    if ex.stalled {
        println!("INCONCLUSIVE property=C16 an execution made no progress for 60 s (possible deadlock); scenario {sc:?} schedule {schedule:?}");
        std::process::exit(2);
    }
    for (t, calls) in sc.threads.iter().enumerate() {
        for (k, call) in calls.iter().enumerate() {
            let want = expected(&sc.text, *call);
            let got = ex.answers.get(t).and_then(|a| a.get(k));
            if got != Some(&want) {
                return Err(format!(
                    "thread {t} call {k} {call:?} on text {:?} returned {got:?}, a fresh single-threaded view returns {want:?}; schedule {schedule:?}",
                    sc.text
                ));
            }
        }
    }
    for (call, got) in &ex.after {
        let want = expected(&sc.text, *call);
        if *got != want {
            return Err(format!(
                "after all threads finished, {call:?} on the same view returned {got:?} (expected {want:?}): the view is unusable for later callers; schedule {schedule:?}"
            ));
        }
    }
    Ok(())
}

fn check(c: &Case, obs: &mut Obs) -> Verdict {
    install_hook();
    let sc = &c.scenario;
    if sc.threads.is_empty() || sc.threads.len() > 6 {
        return Verdict::Fail("harness: 1..6 threads expected".into());
    }
    obs.class_if(sc.threads.len() >= 3, ">=3-threads");
    obs.class_if(sc.threads.iter().flatten().any(|c| matches!(c, Call::GetLine(i) if *i as usize >= ref_lines(&sc.text).len())), "absent-line-request");
    obs.class_if(
        sc.threads.iter().flatten().any(|c| matches!(c, Call::LineCount)) && sc.threads.iter().flatten().any(|c| matches!(c, Call::GetLine(_))),
        "line_count-racing-get_line",
    );
    obs.class_if(sc.threads.iter().flatten().any(|c| matches!(c, Call::Lines)), "lines-iterator");
    match &c.schedule {
        Some(s) => {
            let ex = execute(sc, s);
            obs.inner_evals += 1;
            // determinism self-check: the same (scenario, schedule) must give the same execution
            let again = execute(sc, s);
            if again.trace != ex.trace || again.answers != ex.answers || again.decisions != ex.decisions {
                return Verdict::Fail(format!(
                    "harness: execution is not a deterministic function of the schedule: trace1={:?} trace2={:?} answers1={:?} answers2={:?} decisions1={:?} decisions2={:?}",
                    ex.trace, again.trace, ex.answers, again.answers, ex.decisions, again.decisions
                ));
            }
            if window_hit(&ex.trace) {
                obs.class("window:preempted-between-finished-check-and-lock-while-another-thread-indexes");
                obs.nontrivial();
            }
            match judge(sc, &ex, s) {
                Ok(()) => Verdict::Pass,
                Err(e) => Verdict::Fail(e),
            }
        }
        None => {
            // stateless DFS over all interleavings
            let mut prefix: Vec<u8> = vec![];
            let mut hit = false;
            let mut count = 0u64;
            loop {
                let ex = execute(sc, &prefix);
                count += 1;
                if count % 256 == 0 {
                    crate::engine::heartbeat();
                }
                if !hit && window_hit(&ex.trace) {
                    hit = true;
                }
                let taken: Vec<u8> = ex.decisions.iter().map(|d| d.0 as u8).collect();
                if let Err(e) = judge(sc, &ex, &taken) {
                    return Verdict::Fail(format!("{e} [found by exhaustive DFS after {count} executions]"));
                }
                // next schedule: increment the last decision that has an alternative left
                let mut next: Option<Vec<u8>> = None;
                for k in (0..ex.decisions.len()).rev() {
                    let (pick, options) = ex.decisions[k];
                    if pick + 1 < options {
                        let mut p: Vec<u8> = taken[..k].to_vec();
                        p.push(pick as u8 + 1);
                        next = Some(p);
                        break;
                    }
                }
                match next {
                    Some(p) => prefix = p,
                    None => break,
                }
                if count > 3_000_000 {
                    return Verdict::Fail("harness: scenario too large for exhaustive exploration".into());
                }
            }
            obs.inner_evals += count;
            obs.class("explored-exhaustively");
            if hit {
                obs.class("window:preempted-between-finished-check-and-lock-while-another-thread-indexes");
                obs.nontrivial();
            }
            Verdict::Pass
        }
    }
}

// --- scenario enumeration ----------------------------------------------------------------------

const TEXTS: &[&str] = &["", "a", "a\n", "a\nb", "a\r\nb\n", "\n\n", "a\nb\nc", "a\r"];

fn calls_for(text: &str) -> Vec<Call> {
    let n = ref_lines(text).len() as u32;
    let mut v = vec![Call::GetLine(0), Call::GetLine(n - 1), Call::GetLine(n), Call::GetLine(u32::MAX), Call::LineCount];
    v.dedup();
    v
}

fn exhaustive(t: Tier) -> Box<dyn Iterator<Item = Case>> {
    let mut out = vec![];
    for text in TEXTS {
        let calls = calls_for(text);
        // 2 threads x 1 call, with the lines() iterator as well
        let mut c1 = calls.clone();
        c1.push(Call::Lines);
        let nlines = ref_lines(text).len();
        for a in &c1 {
            for b in &c1 {
                // two racing lines() iterators have ~C(4n+2, 2n+1) interleavings: quick keeps them to short texts
                if *a == Call::Lines && *b == Call::Lines && nlines > 2 && t == Tier::Quick {
                    continue;
                }
                out.push(Scenario { text: text.to_string(), threads: vec![vec![*a], vec![*b]] });
            }
        }
        // 3 threads x 1 call
        for (i, a) in calls.iter().enumerate() {
            for (j, b) in calls.iter().enumerate() {
                for (k, c) in calls.iter().enumerate() {
                    // the three threads are symmetric: quick keeps one order per multiset
                    if (i <= j && j <= k) || t == Tier::Thorough {
                        out.push(Scenario { text: text.to_string(), threads: vec![vec![*a], vec![*b], vec![*c]] });
                    }
                }
            }
        }
        // 2 threads x 2 calls
        for a in &calls {
            for b in &calls {
                for c in &calls {
                    for d in &calls {
                        let keep = match t {
                            Tier::Thorough => true,
                            // quick: a third of the combinations, spread deterministically
                            Tier::Quick => {
                                let h = crate::engine::digest(&(text, format!("{a:?}{b:?}{c:?}{d:?}")));
                                h % 3 != 7
                            }
                        };
                        if keep {
                            out.push(Scenario { text: text.to_string(), threads: vec![vec![*a, *b], vec![*c, *d]] });
                        }
                    }
                }
            }
        }
        if t == Tier::Thorough {
            // 4 threads x 1 call on the two smallest texts; 2 threads x 3 calls sampled
            if text.len() <= 1 {
                for a in &calls {
                    for b in &calls {
                        out.push(Scenario { text: text.to_string(), threads: vec![vec![*a], vec![*b], vec![calls[0]], vec![Call::LineCount]] });
                    }
                }
            }
            for a in &calls {
                for b in &calls {
                    out.push(Scenario { text: text.to_string(), threads: vec![vec![*a, *b, Call::LineCount], vec![*b, Call::GetLine(0), *a]] });
                }
            }
        }
    }
    Box::new(out.into_iter().map(|scenario| Case { scenario, schedule: None }))
}

fn call_strategy() -> BoxedStrategy<Call> {
    prop_oneof![
        5 => prop_oneof![0u32..5, Just(u32::MAX)].prop_map(Call::GetLine),
        2 => Just(Call::LineCount),
        1 => Just(Call::Lines),
    ]
    .boxed()
}

fn random(_t: Tier) -> BoxedStrategy<Case> {
    (
        prop_oneof![
            3 => proptest::sample::select(TEXTS).prop_map(|s| s.to_string()),
            2 => vec(proptest::sample::select(vec!["a", "\n", "\r\n", "b"]), 0..6).prop_map(|v| v.concat()),
            1 => (1020usize..1040).prop_map(|n| "x\n".repeat(n)),
        ],
        vec(vec(call_strategy(), 1..4), 2..5),
        vec(0u8..4, 0..40),
    )
        .prop_map(|(text, mut threads, schedule)| {
            if text.len() > 1000 {
                // a lines() walk over a long text is thousands of scheduling points: use the
                // other calls there, and ask for late lines too
                for (k, c) in threads.iter_mut().flatten().enumerate() {
                    match c {
                        Call::Lines => *c = Call::LineCount,
                        Call::GetLine(i) if *i < 5 && k % 2 == 0 => *c = Call::GetLine(*i * 256 + 3),
                        _ => {}
                    }
                }
            }
            Case { scenario: Scenario { text, threads }, schedule: Some(schedule) }
        })
        .boxed()
}

/// Free-running stress on real threads with the hook removed: threads released by a barrier
/// on a fresh view, same oracle.
fn run_stress(ctx: &mut Ctx) {
    if ctx.failed() {
        return;
    }
    sourcemap::verif_hooks::set_yield_hook(None);
    let rounds = ctx.tier.pick(3_000u64, 300_000);
    let texts = [
        "",
        "a",
        "a\nb",
        "a\r\nb\nc\rd\n",
        "\n\n\n",
        "line\n".repeat(50).as_str().to_string().leak(),
        // long texts: indexing takes long enough for threads to meet inside it
        "l\n".repeat(1500).as_str().to_string().leak(),
        "some longer line of text\r\n".repeat(5000).as_str().to_string().leak(),
    ];
    let mut evals = 0u64;
    let mut nontrivial = 0u64;
    for round in 0..rounds {
        if round % 512 == 0 {
            crate::engine::heartbeat();
        }
        let text = texts[(round % texts.len() as u64) as usize];
        let nthreads = 2 + (round / texts.len() as u64 % 7) as usize * 2; // 2..14
        let nlines = ref_lines(text).len() as u32;
        let view = Arc::new(SourceView::new(text.to_string().into()));
        let barrier = Arc::new(Barrier::new(nthreads));
        let handles: Vec<_> = (0..nthreads)
            .map(|t| {
                let view = view.clone();
                let barrier = barrier.clone();
                let calls: Vec<Call> = match (t as u64 + round) % 4 {
                    0 => vec![Call::GetLine(nlines - 1), Call::LineCount],
                    1 => vec![Call::LineCount, Call::GetLine(0)],
                    2 => vec![Call::GetLine(nlines), Call::GetLine((t as u32) % nlines)],
                    _ => vec![Call::Lines],
                };
                std::thread::spawn(move || {
                    barrier.wait();
                    calls.into_iter().map(|c| (c, perform(&view, c))).collect::<Vec<_>>()
                })
            })
            .collect();
        for h in handles {
            for (call, got) in h.join().unwrap_or_default() {
                let want = expected(text, call);
                if got != want {
                    let case = Case {
                        scenario: Scenario { text: text.to_string(), threads: vec![vec![call]; nthreads.min(4)] },
                        schedule: None,
                    };
                    ctx.fail("stress", &case, format!("free-running stress round {round}: {call:?} on {text:?} returned {got:?}, expected {want:?} ({nthreads} threads)"));
                    return;
                }
            }
        }
        for call in [Call::GetLine(0), Call::LineCount] {
            if perform(&view, call) != expected(text, call) {
                let case = Case { scenario: Scenario { text: text.to_string(), threads: vec![vec![call]; 2] }, schedule: None };
                ctx.fail("stress", &case, format!("free-running stress round {round}: view unusable afterwards ({call:?})"));
                return;
            }
        }
        evals += 1;
        if nthreads >= 4 && nlines >= 2 {
            nontrivial += 1;
        }
    }
    // rounds with the same (text, thread count, role rotation) repeat: count distinct configurations
    let distinct = (texts.len() as u64 * 7 * 4).min(nontrivial);
    ctx.extra.insert("scheduler_wait_timeouts".into(), json!(TIMEOUTS.load(std::sync::atomic::Ordering::Relaxed)));
    ctx.bulk("stress", evals, distinct);
    ctx.sample(json!({"sub": "stress", "rounds": evals, "threads": "2..14 released by a barrier", "texts": texts}));
}

fn stress_check(_c: &Case, _obs: &mut Obs) -> Verdict {
    // a stress failure is not replayable by schedule; the scenario is re-explored exhaustively
    Verdict::Pass
}

fn subs() -> Vec<Sub> {
    let ex = enum_sub("exhaustive_interleavings", exhaustive, check);
    let run = ex.run;
    let _ = stress_check;
    vec![
        Sub {
            run: Box::new(move |ctx| {
                install_hook();
                run(ctx);
                if !ctx.failed() {
                    ctx.note_exhaustive("every interleaving of the yield points (call start, after the cached-line check, after the finished check) for each enumerated scenario shape: 2 threads x 1 call (incl. lines()), 3 threads x 1 call, 2 threads x 2 calls, thorough additionally 4 x 1 and 2 x 3 samples");
                }
            }),
            ..ex
        },
        gen_sub("random_schedules", random, |t| t.pick(40_000, 1_500_000), check),
        custom_sub::<Case>("stress", run_stress, check),
    ]
}

pub const DEF: PropertyDef = PropertyDef {
    id: "C16",
    rule: "exhaustive_interleavings: scenario = text (8 texts of 1..3 lines) x per-thread call lists from {get_line(0), get_line(last), \
           get_line(count), get_line(u32::MAX), line_count, lines}; each case explores EVERY interleaving of its threads' steps by stateless \
           DFS (inner evaluations = executions). random_schedules: proptest (scenario of 2..4 threads x 1..3 calls, schedule of <= 40 \
           choices). stress: free-running real threads (2..14) released by a barrier, hook not parking. Oracle: every call returns what a \
           fresh single-threaded view returns (reference splitter), no panic, and the view still answers get_line(0), get_line(last), \
           line_count afterwards. Non-trivial = some thread was pre-empted between its finished check and its indexing lock while another \
           thread went through the indexing section (measured on the scheduler trace)",
    assumptions: &[
        "the scheduler is sequentially consistent: bugs that need hardware reordering of the Relaxed atomics are only probed by the stress run",
        "no yield point lies inside a critical section, so a running thread can never block on the view's mutex held by a parked thread",
        "an execution without progress for 60 s is reported as inconclusive (exit 2), never as a violation",
    ],
    subs,
};
