//! C14 — Hermes maps resolve tokens to the enclosing function their metadata describes.

use proptest::collection::vec;
use proptest::prelude::*;
use serde::{Deserialize, Serialize};
use sourcemap::{DecodedMap, SourceMapHermes};

use super::common::{dec, ref_lookup_index};
use crate::engine::{gen_sub, guard, Obs, PropertyDef, Sub, Tier, Verdict};
use crate::model::*;
use crate::refimpl::vlq as rv;
use crate::{ensure, ensure_eq};

#[derive(Clone, Debug, Hash, Serialize, Deserialize)]
pub enum FmFault {
    /// last value of one segment left unterminated
    CutOff(u16),
    /// one value written with 14 digits
    Overlong(u16),
    /// a character outside the alphabet
    Foreign(u16),
}

#[derive(Clone, Debug, Hash, Serialize, Deserialize)]
pub struct FnMapSpec {
    pub names: Vec<String>,
    /// sorted, distinct (line >= 1, column); name index possibly out of range
    pub entries: Vec<(u32, u32, u32)>,
    pub semis: Vec<bool>,
    pub omit: Vec<bool>,
    pub fault: Option<FmFault>,
}

#[derive(Clone, Debug, Hash, Serialize, Deserialize)]
pub enum Meta {
    Null,
    Empty,
    /// function map followed by extra metadata entries
    Maps(FnMapSpec, Vec<FnMapSpec>),
}

#[derive(Clone, Debug, Hash, Serialize, Deserialize)]
pub struct Case {
    pub map: MM,
    pub meta: Vec<Meta>,
    pub offsets: Vec<u32>,
}

fn encode_spec(s: &FnMapSpec) -> String {
    let mut text = encode_fnmap(&s.entries, &s.semis, &s.omit);
    match &s.fault {
        None => {}
        Some(FmFault::CutOff(at)) => {
            // set the continuation bit on the last digit of a segment
            let ends: Vec<usize> = text
                .char_indices()
                .filter(|(i, c)| *c != ',' && *c != ';' && text[i + 1..].chars().next().map(|n| n == ',' || n == ';').unwrap_or(true))
                .map(|(i, _)| i)
                .collect();
            if ends.is_empty() {
                text.push('g');
            } else {
                let i = ends[idx16(*at, ends.len())];
                let d = rv::digit_of(text.as_bytes()[i]).unwrap() | 32;
                text.replace_range(i..i + 1, &(rv::ALPHABET[d as usize] as char).to_string());
            }
        }
        Some(FmFault::Overlong(at)) => {
            let mut long = String::new();
            rv::write_padded(&mut long, 1, 14);
            let i = idx16(*at, text.len() + 1);
            // insert as its own segment boundary-safe: put it in front of the segment containing i
            let start = text[..i].rfind([',', ';']).map(|p| p + 1).unwrap_or(0);
            text.insert_str(start, &long);
        }
        Some(FmFault::Foreign(at)) => {
            let i = idx16(*at, text.len() + 1);
            text.insert(i, '!');
        }
    }
    text
}

/// Independent Metro function-map reader: `None` = the map does not parse.
fn ref_read_fnmap(text: &str) -> Option<Vec<(u32, u32, u32)>> {
    let mut out = vec![];
    let (mut line, mut name) = (1i128, 0i128);
    for group in text.split(';') {
        let mut col = 0i128;
        for seg in group.split(',') {
            if seg.is_empty() {
                continue;
            }
            let vals = rv::read(seg).ok()?;
            col += vals[0].value;
            name += vals.get(1).map(|v| v.value).unwrap_or(0);
            line += vals.get(2).map(|v| v.value).unwrap_or(0);
            out.push((line as u32, col as u32, name as u32));
        }
    }
    Some(out)
}

struct RefSource {
    names: Vec<String>,
    entries: Vec<(u32, u32, u32)>,
}

/// Minified text in which the name-guessing heuristic of regular maps would find a function
/// called `f` declared at column 9 (tokens are put on `function` and on `f`, see `cases`).
const BAIT_TEXT: &str = "function f(a){return a}";
const BAIT_NAME: &str = "f";

fn ref_scope(src: Option<&RefSource>, line0: u32, col: u32) -> Option<String> {
    let s = src?;
    let key = (line0.checked_add(1)?, col);
    let best = s.entries.iter().filter(|e| (e.0, e.1) <= key).max_by_key(|e| (e.0, e.1))?;
    // first entry at that position (entries are distinct by construction)
    s.names.get(best.2 as usize).cloned()
}

fn to_fb(meta: &[Meta]) -> Vec<Option<Vec<FbMap>>> {
    meta.iter()
        .map(|m| match m {
            Meta::Null => None,
            Meta::Empty => Some(vec![]),
            Meta::Maps(f, extra) => Some(
                std::iter::once(f)
                    .chain(extra.iter())
                    .map(|s| FbMap { names: s.names.clone(), mappings: encode_spec(s) })
                    .collect(),
            ),
        })
        .collect()
}

fn answers(h: &SourceMapHermes, c: &Case, refs: &[Option<RefSource>], stage: &str, obs: &mut Obs) -> Result<(), String> {
    // every token
    let toks: Vec<_> = h.tokens().collect();
    for t in &toks {
        obs.inner_evals += 1;
        let want = if t.has_source() {
            ref_scope(refs.get(t.get_src_id() as usize).and_then(|r| r.as_ref()), t.get_src_line(), t.get_src_col())
        } else {
            None
        };
        let got = guard(|| h.get_scope_for_token(*t).map(str::to_string)).map_err(|p| format!("{stage}: get_scope_for_token: {p}"))?;
        if got != want {
            return Err(format!(
                "{stage}: get_scope_for_token(token at {:?} -> source {} {:?}) = {got:?}, the independent reading of the function map gives {want:?}",
                t.get_dst(),
                t.get_src_id(),
                t.get_src()
            ));
        }
        obs.class_if(want.is_some(), "scope-found");
    }
    // bytecode offsets on line 0
    let pos: Vec<(u32, u32)> = toks.iter().map(|t| t.get_dst()).collect();
    let mut offsets: Vec<u32> = c.offsets.clone();
    offsets.extend([0, u32::MAX]);
    for t in &toks {
        if t.get_dst_line() == 0 {
            offsets.extend([t.get_dst_col(), t.get_dst_col().saturating_add(1), t.get_dst_col().saturating_sub(1)]);
        }
    }
    offsets.sort();
    offsets.dedup();
    let as_decoded = DecodedMap::Hermes(h.clone());
    let bait_view = sourcemap::SourceView::from_string(BAIT_TEXT.to_string());
    for off in offsets {
        obs.inner_evals += 1;
        let q = (0u32, off);
        let mut inside_range = false;
        let acceptable: Vec<Option<String>> = match ref_lookup_index(&pos, q) {
            None => vec![None],
            Some(i) => {
                let exact = pos[i] == q;
                toks.iter()
                    .enumerate()
                    .filter(|(k, t)| if exact { *k == i } else { t.get_dst() == pos[i] })
                    .map(|(_, t)| {
                        if t.has_source() {
                            // a lookup that lands inside a range mapping reports the original column advanced by
                            // the distance from the token's generated column (C07); that is the token's original
                            // position the scope is resolved at
                            let col = if t.is_range() { t.get_src_col().saturating_add(off - t.get_dst_col()) } else { t.get_src_col() };
                            if t.is_range() && off > t.get_dst_col() {
                                inside_range = true;
                            }
                            ref_scope(refs.get(t.get_src_id() as usize).and_then(|r| r.as_ref()), t.get_src_line(), col)
                        } else {
                            None
                        }
                    })
                    .collect()
            }
        };
        obs.class_if(inside_range, "bytecode-offset-inside-a-range-mapping");
        if inside_range && acceptable.iter().any(|a| a.is_some()) {
            obs.class("bytecode-offset-inside-a-range-mapping(scope found)");
        }
        let got = guard(|| h.get_original_function_name(off).map(str::to_string)).map_err(|p| format!("{stage}: get_original_function_name({off}): {p}"))?;
        if !acceptable.contains(&got) {
            return Err(format!("{stage}: get_original_function_name({off}) = {got:?}, expected one of {acceptable:?}"));
        }
        let got2 = guard(|| as_decoded.get_original_function_name(0, off, None, None).map(str::to_string))
            .map_err(|p| format!("{stage}: DecodedMap::get_original_function_name(0,{off}): {p}"))?;
        if !acceptable.contains(&got2) {
            return Err(format!("{stage}: DecodedMap::get_original_function_name(0, {off}, None, None) = {got2:?}, expected one of {acceptable:?}"));
        }
        // the optional arguments are for maps that need the minified source; a Hermes map answers from
        // its function maps alone, whatever the caller passes along
        let got3 = guard(|| as_decoded.get_original_function_name(0, off, Some(BAIT_NAME), Some(&bait_view)).map(str::to_string))
            .map_err(|p| format!("{stage}: DecodedMap::get_original_function_name(0,{off},Some,Some): {p}"))?;
        if !acceptable.contains(&got3) {
            return Err(format!(
                "{stage}: DecodedMap::get_original_function_name(0, {off}, Some({BAIT_NAME:?}), Some(view of {BAIT_TEXT:?})) = {got3:?}, expected one of {acceptable:?} (what the function maps say)"
            ));
        }
        let nonzero = guard(|| as_decoded.get_original_function_name(1, off, None, None).is_none()).map_err(|p| format!("{stage}: {p}"))?;
        if !nonzero {
            return Err(format!("{stage}: DecodedMap::get_original_function_name(1, {off}, ..) is Some for a non-zero line"));
        }
    }
    Ok(())
}

fn check(c: &Case, obs: &mut Obs) -> Verdict {
    let mut map = c.map.clone();
    map.route = Route::Doc;
    let model = MHermes { map, fb: to_fb(&c.meta) };
    let text = model.to_json();
    let h = match guard(|| SourceMapHermes::from_slice(text.as_bytes())) {
        Ok(Ok(h)) => h,
        Ok(Err(e)) => return Verdict::Fail(format!("decoding fails although only function maps may be ill-formed: {e}; doc={text}")),
        Err(p) => return Verdict::Fail(format!("decode: {p}")),
    };
    // reference per source
    let mut broken = 0;
    let mut out_of_range = false;
    let refs: Vec<Option<RefSource>> = c
        .meta
        .iter()
        .map(|m| match m {
            Meta::Null | Meta::Empty => None,
            Meta::Maps(f, _) => match ref_read_fnmap(&encode_spec(f)) {
                Some(entries) => {
                    if entries.iter().any(|e| e.2 as usize >= f.names.len()) {
                        out_of_range = true;
                    }
                    Some(RefSource { names: f.names.clone(), entries })
                }
                None => {
                    broken += 1;
                    None
                }
            },
        })
        .collect();
    // the reference reading of a fault-free spec equals the spec's entries (harness self-check)
    for m in &c.meta {
        if let Meta::Maps(f, _) = m {
            if f.fault.is_none() {
                ensure_eq!(ref_read_fnmap(&encode_spec(f)), Some(f.entries.clone()), "harness: Metro writer/reader disagree");
            }
        }
    }
    if let Err(e) = answers(&h, c, &refs, "decoded", obs) {
        return Verdict::Fail(format!("{e}; doc={text}"));
    }
    // unchanged by serialising and decoding again
    let mut out = vec![];
    match guard(|| h.to_writer(&mut out)) {
        Ok(Ok(())) => {}
        other => return Verdict::Fail(format!("to_writer: {other:?}")),
    }
    match dec(&out) {
        Ok(DecodedMap::Hermes(h2)) => {
            ensure_eq!(h2.get_token_count() <= h.get_token_count(), true, "token count grew");
            if let Err(e) = answers(&h2, c, &refs, "after to_writer+decode", obs) {
                return Verdict::Fail(format!("{e}; written={}", String::from_utf8_lossy(&out)));
            }
        }
        Ok(_) => return Verdict::Fail("a serialised Hermes map decodes as another kind".into()),
        Err(e) => return Verdict::Fail(format!("{e}; written={}", String::from_utf8_lossy(&out))),
    }
    // classes
    let good: Vec<&FnMapSpec> = c
        .meta
        .iter()
        .filter_map(|m| match m {
            Meta::Maps(f, _) if f.fault.is_none() => Some(f),
            _ => None,
        })
        .collect();
    let rich = good
        .iter()
        .filter(|f| f.entries.len() >= 3 && f.entries.iter().map(|e| e.0).collect::<std::collections::BTreeSet<_>>().len() >= 2)
        .count();
    let omitted = good.iter().any(|f| {
        let text = encode_spec(f);
        text.split([',', ';']).any(|s| !s.is_empty() && rv::read(s).map(|v| v.len() < 3).unwrap_or(false))
    });
    obs.class_if(good.iter().any(|f| f.entries.len() > 256), "function-map>256-entries");
    obs.class_if(
        c.meta.len() >= 2
            && matches!((&c.meta[0], &c.meta[1]), (Meta::Maps(a, _), Meta::Maps(b, _)) if a.names != b.names && encode_spec(a) == encode_spec(b) && encode_spec(a).len() >= 64),
        "two-sources-with-identical-mappings>=64-bytes-and-different-names",
    );
    obs.class_if(broken > 0, "unparsable-function-map(for one source)");
    obs.class_if(broken > 0 && !good.is_empty(), "unparsable-next-to-well-formed");
    obs.class_if(out_of_range, "name-index-out-of-range");
    obs.class_if(good.iter().any(|f| f.entries.iter().any(|e| e.2 >= 1 << 31)), "running-name-index-below-zero");
    obs.class_if(c.meta.iter().any(|m| matches!(m, Meta::Null)), "metadata:null");
    obs.class_if(c.meta.iter().any(|m| matches!(m, Meta::Empty)), "metadata:[]");
    obs.class_if(c.meta.iter().any(|m| matches!(m, Meta::Maps(_, e) if !e.is_empty())), "metadata:extra-entries");
    obs.class_if(c.meta.len() < c.map.sources.len(), "metadata-shorter-than-sources");
    obs.class_if(c.meta.len() > c.map.sources.len(), "metadata-longer-than-sources");
    obs.class_if(omitted, "omitted-trailing-fields");
    obs.class_if(good.iter().any(|f| f.semis.iter().skip(1).take(f.entries.len().saturating_sub(1)).any(|b| *b)), "semicolons");
    if rich >= 2 && omitted {
        obs.nontrivial();
    }
    ensure!(true, "");
    Verdict::Pass
}

fn spec(allow_faults: bool) -> BoxedStrategy<FnMapSpec> {
    (vec(pool_string(NAME_POOL), 0..4), prop_oneof![6 => Just(0u32), 1 => 1u32..3])
        .prop_flat_map(move |(names, extra_idx)| {
            let n = names.len() as u32 + extra_idx;
            let entries = if n == 0 {
                Just(vec![]).boxed()
            } else {
                prop_oneof![
                    12 => vec((1u32..7, 0u32..30, prop_oneof![14 => (0..n).boxed(), 1 => (0u32..2).prop_map(|k| u32::MAX - k).boxed()]), 0..9),
                    // large function maps (hundreds of entries, around the powers of two)
                    1 => proptest::sample::select(vec![60usize, 127, 128, 129, 255, 256, 257, 258, 300, 513])
                        .prop_flat_map(move |k| vec((1u32..40, 0u32..30, 0..n), k..k + 40)),
                ]
                .prop_map(|mut v| {
                    v.sort();
                    v.dedup_by_key(|e| (e.0, e.1));
                    v
                })
                .boxed()
            };
            let fault = if allow_faults {
                prop_oneof![
                    8 => Just(None),
                    1 => any::<u16>().prop_map(|a| Some(FmFault::CutOff(a))),
                    1 => any::<u16>().prop_map(|a| Some(FmFault::Overlong(a))),
                    1 => any::<u16>().prop_map(|a| Some(FmFault::Foreign(a))),
                ]
                .boxed()
            } else {
                Just(None).boxed()
            };
            (Just(names), entries, vec(any::<bool>(), 64), vec(any::<bool>(), 64), fault)
        })
        .prop_map(|(names, entries, semis, omit, fault)| FnMapSpec { names, entries, semis, omit, fault })
        .boxed()
}

fn cases(t: Tier) -> BoxedStrategy<Case> {
    let p = MMParams {
        max_tokens: t.pick(24, 60),
        ranges: true,
        max_sources: 5,
        max_names: 3,
        big_lines: false,
        distinct_strings: false,
        edge_values: false,
    };
    mm_strategy(p)
        .prop_flat_map(|mut map| {
            // tokens around the function-map entries: original lines 0..7, columns 0..35
            for t in &mut map.tokens {
                if let Some(s) = &mut t.src {
                    s.line %= 8;
                    s.col %= 36;
                }
            }
            if map.sources.is_empty() {
                map.sources.push("only.js".into());
            }
            let ns = map.sources.len();
            let meta = prop_oneof![
                1 => Just(Meta::Null),
                1 => Just(Meta::Empty),
                8 => (spec(true), vec(spec(false), 0..2)).prop_map(|(f, e)| Meta::Maps(f, e)),
            ];
            (Just(map), vec(meta, ns.saturating_sub(1)..=ns + 1), vec(prop_oneof![3 => 0u32..40, 1 => small_or_edge()], 0..5))
        })
        .prop_map(|(mut map, mut meta, offsets)| {
            // a quarter of the cases: the second source gets a byte-identical function-map string
            // with its own (different) names
            if offsets.len() % 4 == 1 && meta.len() >= 2 {
                if let Meta::Maps(first, _) = meta[0].clone() {
                    let mut twin = first;
                    twin.names = twin.names.iter().map(|n| format!("{n}_b")).collect();
                    meta[1] = Meta::Maps(twin, vec![]);
                }
            }
            // sources with a large function map get tokens over its whole line range
            for t in &mut map.tokens {
                if let Some(s) = &mut t.src {
                    if let Some(Meta::Maps(f, _)) = meta.get(s.id as usize) {
                        if f.entries.len() > 40 {
                            s.line = (s.line * 7 + t.dc) % 42;
                        }
                    }
                }
            }
            // a third of the cases: a source *without* function map whose tokens sit on `function` and
            // on the declared name of BAIT_TEXT and carry names - nothing may be answered for them
            if offsets.len() % 3 == 0 {
                let bait = map.sources.len() as u32;
                map.sources.push("bait.js".into());
                meta.truncate(bait as usize);
                if map.names.is_empty() {
                    map.names.push("origName".into());
                }
                for (dc, col) in [(0u32, 0u32), (9, 9)] {
                    map.tokens.push(MTok { dl: 0, dc, src: Some(crate::refimpl::v3::RefSrc { id: bait, line: 0, col, name: Some(0) }), range: false, junk: (0, 0) });
                }
            }
            Case { map, meta, offsets }
        })
        .boxed()
}

fn subs() -> Vec<Sub> {
    vec![gen_sub("hermes_maps", cases, |t| t.pick(80_000, 300_000), check)]
}

pub const DEF: PropertyDef = PropertyDef {
    id: "C14",
    rule: "model Hermes maps: 1..5 sources, per source metadata null / [] / [function map, extra...]; function maps with 0..8 sorted entries \
           on lines 1..6 encoded Metro-style by the harness (column delta reset at ';', running name/line deltas, trailing zero fields \
           omitted at random, ';' at arbitrary segment boundaries), name indices possibly out of range, ill-formed mapping strings (cut-off \
           value, 14-digit value, foreign character) for single sources; metadata list shorter/longer than sources; tokens before/on/after \
           the entries, sourceless tokens, range tokens (a bytecode offset inside a range mapping resolves the scope at the advanced original column). Oracle: independent Metro reader + linear scan for every token, for bytecode offsets (every \
           line-0 token column +-1, 0, u32::MAX, random) through both entry points, None for non-zero lines; all answers repeated after \
           to_writer+decode. Range tokens (a bytecode offset inside a range resolves the scope at the advanced column); a bait source without function map queried with the optional minified-name / source-view arguments. Non-trivial = >= 2 sources with function maps of >= 3 entries on >= 2 lines and an omitted trailing field",
    assumptions: &[
        "function-map entries are sorted and distinct by (line, column) — the statement's 'well-formed'",
        "offset lookups that land on several tokens sharing a position accept the scope of any of them unless the hit is exact",
    ],
    subs,
};
