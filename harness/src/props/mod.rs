use crate::engine::PropertyDef;

pub mod c11;

pub fn all() -> Vec<PropertyDef> {
    vec![c11::DEF]
}

pub fn lookup(id: &str) -> Option<PropertyDef> {
    all().into_iter().find(|d| d.id == id)
}
