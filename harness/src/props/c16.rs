//! C16 — a SourceView shared between threads answers as if accessed by one.
//!
//! The harness owns the schedule: under `--cfg sourcemap_verif`, `SourceView::get_line`
//! calls `verif_hooks::yield_point(n)` where it holds no lock. Every scenario thread is a fiber
//! (ucontext) that switches back to a controller at each yield point and before each call; the
//! controller resumes exactly one of them at a time, chosen by the next element of the schedule.
//! An execution is therefore a deterministic function of (text, per-thread call lists,
//! schedule): replayable, shrinkable and — for small shapes — enumerable exhaustively. A call that
//! blocks for good (self-deadlock on the view's mutex) is detected structurally by the waiting
//! engine worker (`blocked_for_good`), not by a time-out.

use std::cell::RefCell;
use std::sync::{Arc, Barrier, Mutex};

use proptest::collection::vec;
use proptest::prelude::*;
use serde::{Deserialize, Serialize};
use serde_json::json;
use sourcemap::SourceView;

use super::c15::ref_lines;
use crate::engine::{custom_sub, enum_sub, gen_sub, guard, Ctx, Obs, PropertyDef, Sub, Tier, Verdict};

#[derive(Clone, Copy, Debug, Hash, PartialEq, Eq, Serialize, Deserialize)]
pub enum Call {
    GetLine(u32),
    LineCount,
    Lines,
    /// `view.clone()` taken while other threads use the view, then `lines()` and `line_count()` on
    /// the clone (free-running stress only: a clone has no yield point of its own)
    CloneLines,
    /// a `lines()` iterator kept alive while the same thread calls `get_line` and `line_count`
    /// (an iterator that held a lock of the view would block its own thread for good)
    LinesHeld,
}

#[derive(Clone, Debug, Hash, Serialize, Deserialize)]
pub struct Scenario {
    pub text: String,
    pub threads: Vec<Vec<Call>>,
}

#[derive(Clone, Debug, Hash, Serialize, Deserialize)]
pub struct Case {
    pub scenario: Scenario,
    /// `None`: explore every interleaving (DFS); `Some`: run exactly this schedule (choice
    /// indices into the runnable set; exhausted = always the first runnable thread)
    pub schedule: Option<Vec<u8>>,
}

#[derive(Clone, Debug, PartialEq, Eq)]
enum Answer {
    Line(Option<String>),
    Count(usize),
    All(Vec<String>),
    Panic(String),
}

#[derive(Clone, Copy, Debug, PartialEq, Eq)]
enum Ev {
    CallStart(usize),
    Yield(u32),
    CallEnd(usize),
    Finished,
}


// ---------------------------------------------------------------------------------------
// scheduler: the scenario "threads" are fibers (ucontext) of ONE operating-system thread
// ---------------------------------------------------------------------------------------
//
// `SourceView::get_line` is written for real threads, but between two yield points a thread
// runs without interruption and - by construction of the hook - holds no lock of the view when
// it reaches one. An interleaving of the calls' internal steps is therefore exactly a sequence
// "resume fiber a until its next yield point, then fiber b, ...". Running the fibers on one OS
// thread makes an execution a pure function of (text, call lists, schedule): no hand-off between
// kernel threads, no dependence on the machine's load, ~10^6 executions per second and worker.
// What this cannot show is the effect of two threads executing *inside* a critical section or
// between two atomics at the same time; that is what the free-running `stress` sub is for.

const FIBER_STACK: usize = 256 * 1024;

struct Fiber {
    ctx: Box<libc::ucontext_t>,
    stack: Vec<u8>,
}

impl Fiber {
    fn new() -> Fiber {
        Fiber { ctx: Box::new(unsafe { std::mem::zeroed() }), stack: vec![0u8; FIBER_STACK] }
    }
}

/// State of the execution that is running on this OS thread (reached from the fibers and from
/// the yield hook through a thread-local raw pointer; no reference to it is kept across a
/// context switch).
struct Run {
    main: libc::ucontext_t,
    fibers: Vec<Fiber>,
    view: Arc<SourceView>,
    calls: Vec<Vec<Call>>,
    answers: Vec<Vec<Answer>>,
    done: Vec<bool>,
    trace: Vec<(usize, Ev)>,
    cur: usize,
    in_fiber: bool,
}

thread_local! {
    static RUN: std::cell::Cell<*mut Run> = const { std::cell::Cell::new(std::ptr::null_mut()) };
    static FIBERS: RefCell<Vec<Fiber>> = const { RefCell::new(Vec::new()) };
}

/// Called on a fiber: record the event and switch back to the controller.
fn park(ev: Ev) {
    let run = RUN.with(|r| r.get());
    debug_assert!(!run.is_null());
    unsafe {
        let (me, main) = {
            let r: &mut Run = &mut *run;
            let id = r.cur;
            r.trace.push((id, ev));
            r.in_fiber = false;
            (&mut *r.fibers[id].ctx as *mut libc::ucontext_t, &r.main as *const libc::ucontext_t)
        };
        libc::swapcontext(me, main);
    }
}

extern "C" fn fiber_main() {
    let run = RUN.with(|r| r.get());
    let (id, view, calls) = unsafe {
        let r: &Run = &*run;
        (r.cur, r.view.clone(), r.calls[r.cur].clone())
    };
    for (k, call) in calls.iter().enumerate() {
        park(Ev::CallStart(k));
        let a = perform(&view, *call);
        unsafe {
            let r: &mut Run = &mut *run;
            r.answers[id].push(a);
            r.trace.push((id, Ev::CallEnd(k)));
        }
    }
    drop(view);
    drop(calls);
    unsafe {
        let r: &mut Run = &mut *run;
        r.trace.push((id, Ev::Finished));
        r.done[id] = true;
        r.in_fiber = false;
    }
    // returning continues at uc_link = the controller's context
}

fn hook(n: u32) {
    // (2) and (3) are adjacent in the code: park at (1) and (2) only
    if n == 3 {
        return;
    }
    let run = RUN.with(|r| r.get());
    if !run.is_null() && unsafe { (*run).in_fiber } {
        park(Ev::Yield(n));
    }
}

pub fn install_hook() {
    sourcemap::verif_hooks::set_yield_hook(Some(hook));
}

fn perform(view: &SourceView, call: Call) -> Answer {
    let r = guard(|| match call {
        Call::GetLine(i) => Answer::Line(view.get_line(i).map(str::to_string)),
        Call::LineCount => Answer::Count(view.line_count()),
        Call::Lines => Answer::All(view.lines().map(str::to_string).collect()),
        Call::LinesHeld => {
            let mut it = view.lines();
            let mut all: Vec<String> = it.by_ref().take(1).map(str::to_string).collect();
            let n = view.line_count();
            let first = view.get_line(0).map(str::to_string);
            all.extend(it.map(str::to_string));
            if n != all.len() || first.as_deref() != all.first().map(|s| s.as_str()) {
                Answer::Count(n)
            } else {
                Answer::All(all)
            }
        }
        Call::CloneLines => {
            let c = view.clone();
            let n = c.line_count();
            let all: Vec<String> = c.lines().map(str::to_string).collect();
            // the count is part of the answer: a clone that indexes a tail twice shows in either
            if n != all.len() {
                Answer::Count(n)
            } else {
                Answer::All(all)
            }
        }
    });
    match r {
        Ok(a) => a,
        Err(p) => Answer::Panic(p),
    }
}

fn expected(text: &str, call: Call) -> Answer {
    let lines = ref_lines(text);
    match call {
        Call::GetLine(i) => Answer::Line(lines.get(i as usize).map(|s| s.to_string())),
        Call::LineCount => Answer::Count(lines.len()),
        Call::Lines | Call::CloneLines | Call::LinesHeld => Answer::All(lines.iter().map(|s| s.to_string()).collect()),
    }
}

struct Execution {
    answers: Vec<Vec<Answer>>,
    trace: Vec<(usize, Ev)>,
    /// (chosen index, number of runnable threads) at every decision
    decisions: Vec<(usize, usize)>,
    after: Vec<(Call, Answer)>,
    stalled: bool,
    /// set by the waiting engine worker when the executor thread is blocked for good
    deadlock: Option<String>,
}

/// Runs one schedule. `choices[k]` picks among the runnable threads at decision k (clamped);
/// beyond the list the first runnable thread is chosen. Must run on an executor thread (see
/// `on_executor`): a deadlock inside the view blocks the calling OS thread for good.
fn execute(sc: &Scenario, choices: &[u8]) -> Execution {
    let n = sc.threads.len();
    PROGRESS.with(|p| {
        if let Some(p) = p.borrow().as_ref() {
            *p.lock().unwrap() = (format!("text {:?}, threads {:?}", sc.text, sc.threads), choices.to_vec(), vec![]);
        }
    });
    let view = Arc::new(SourceView::new(sc.text.clone().into()));
    let mut fibers = FIBERS.with(|f| std::mem::take(&mut *f.borrow_mut()));
    while fibers.len() < n {
        fibers.push(Fiber::new());
    }
    let mut run = Box::new(Run {
        main: unsafe { std::mem::zeroed() },
        fibers,
        view: view.clone(),
        calls: sc.threads.clone(),
        answers: vec![vec![]; n],
        done: vec![false; n],
        trace: vec![],
        cur: 0,
        in_fiber: false,
    });
    let runp: *mut Run = &mut *run;
    RUN.with(|r| r.set(runp));
    unsafe {
        let r: &mut Run = &mut *runp;
        let main: *mut libc::ucontext_t = &mut r.main;
        for f in r.fibers.iter_mut().take(n) {
            libc::getcontext(&mut *f.ctx);
            f.ctx.uc_stack.ss_sp = f.stack.as_mut_ptr() as *mut libc::c_void;
            f.ctx.uc_stack.ss_size = f.stack.len();
            f.ctx.uc_link = main;
            libc::makecontext(&mut *f.ctx, fiber_main, 0);
        }
    }
    let resume = |id: usize| unsafe {
        let (main, to) = {
            let r: &mut Run = &mut *runp;
            r.cur = id;
            r.in_fiber = true;
            (&mut r.main as *mut libc::ucontext_t, &*r.fibers[id].ctx as *const libc::ucontext_t)
        };
        libc::swapcontext(main, to);
        (*runp).in_fiber = false;
    };
    // every thread first runs up to the start of its first call (no order among those steps)
    for id in 0..n {
        resume(id);
    }
    let mut decisions = vec![];
    let mut stalled = false;
    loop {
        let runnable: Vec<usize> = {
            let r: &Run = unsafe { &*runp };
            (0..n).filter(|i| !r.done[*i]).collect()
        };
        if runnable.is_empty() {
            break;
        }
        if decisions.len() > 100_000 {
            stalled = true;
            break;
        }
        let k = decisions.len();
        let pick = choices.get(k).map(|c| *c as usize).unwrap_or(0).min(runnable.len() - 1);
        decisions.push((pick, runnable.len()));
        PROGRESS.with(|p| {
            if let Some(p) = p.borrow().as_ref() {
                p.lock().unwrap().2.push(pick as u8);
            }
        });
        resume(runnable[pick]);
    }
    RUN.with(|r| r.set(std::ptr::null_mut()));
    let Run { fibers, answers, trace, .. } = *run;
    if !stalled {
        // (a fiber that never finished keeps frames on its stack: do not reuse those)
        FIBERS.with(|f| *f.borrow_mut() = fibers);
    }
    if stalled {
        return Execution { answers: vec![], trace, decisions, after: vec![], stalled, deadlock: None };
    }
    // the view must still be usable for later callers
    let last = ref_lines(&sc.text).len() as u32 - 1;
    let after = [Call::GetLine(0), Call::GetLine(last), Call::LineCount, Call::GetLine(last + 1)]
        .into_iter()
        .map(|c| (c, perform(&view, c)))
        .collect();
    Execution { answers, trace, decisions, after, stalled, deadlock: None }
}

// --- executor thread and structural deadlock detection ----------------------------------------

type Progress = Arc<Mutex<(String, Vec<u8>, Vec<u8>)>>;

thread_local! {
    /// (on an executor thread) where the execution in progress is published: scenario, the
    /// schedule it was given, the decisions taken so far
    static PROGRESS: RefCell<Option<Progress>> = const { RefCell::new(None) };
    static EXECUTOR: RefCell<Option<Executor>> = const { RefCell::new(None) };
}

type Job = Box<dyn FnOnce() + Send>;

struct Executor {
    tx: std::sync::mpsc::Sender<Job>,
    tid: Arc<std::sync::atomic::AtomicU64>,
    progress: Progress,
}

impl Executor {
    fn spawn() -> Executor {
        let (tx, rx) = std::sync::mpsc::channel::<Job>();
        let tid = Arc::new(std::sync::atomic::AtomicU64::new(0));
        let progress: Progress = Arc::new(Mutex::new((String::new(), vec![], vec![])));
        let (t2, p2) = (tid.clone(), progress.clone());
        std::thread::Builder::new()
            .name("c16-executor".into())
            .stack_size(8 << 20)
            .spawn(move || {
                // "/proc/thread-self" -> "<pid>/task/<tid>"
                if let Ok(l) = std::fs::read_link("/proc/thread-self") {
                    if let Some(t) = l.file_name().and_then(|f| f.to_str()).and_then(|f| f.parse::<u64>().ok()) {
                        t2.store(t, std::sync::atomic::Ordering::Release);
                    }
                }
                PROGRESS.with(|p| *p.borrow_mut() = Some(p2));
                while let Ok(job) = rx.recv() {
                    job();
                }
            })
            .expect("spawn executor");
        Executor { tx, tid, progress }
    }
}

/// (state, user+system clock ticks, voluntary+involuntary context switches) of a thread of this process
fn thread_sample(tid: u64) -> Option<(char, u64, u64)> {
    let stat = std::fs::read_to_string(format!("/proc/self/task/{tid}/stat")).ok()?;
    // "<tid> (<comm>) <state> ..." - comm may contain spaces: cut at the last ')'
    let rest = &stat[stat.rfind(')')? + 2..];
    let f: Vec<&str> = rest.split_whitespace().collect();
    let state = f.first()?.chars().next()?;
    let ticks = f.get(11)?.parse::<u64>().ok()? + f.get(12)?.parse::<u64>().ok()?;
    let status = std::fs::read_to_string(format!("/proc/self/task/{tid}/status")).ok()?;
    let mut sw = 0u64;
    for l in status.lines() {
        if l.starts_with("voluntary_ctxt_switches:") || l.starts_with("nonvoluntary_ctxt_switches:") {
            sw += l.split(':').nth(1)?.trim().parse::<u64>().ok()?;
        }
    }
    Some((state, ticks, sw))
}

/// Structural deadlock detection (not a time-out). All fibers of an execution live on the
/// executor thread, which does nothing else; nothing it waits for can be provided by another
/// thread (the view is private to the execution). If that thread is asleep in the kernel (state
/// S: blocked - a thread that merely waits for a CPU is R), consumes no CPU time and is not
/// switched in or out over 40 samples spread over 2 s, it is blocked for good: the execution
/// has deadlocked, whatever the machine's load.
fn blocked_for_good(tid: u64) -> bool {
    let Some(first) = thread_sample(tid) else { return false };
    if first.0 != 'S' {
        return false;
    }
    for _ in 0..40 {
        std::thread::sleep(std::time::Duration::from_millis(50));
        match thread_sample(tid) {
            Some(s) if s == first => {}
            _ => return false,
        }
    }
    true
}

/// Runs `job` on this worker's executor thread and waits for its result; `Err(description)` if
/// the executor deadlocked inside an execution (it is then abandoned and replaced).
fn on_executor<R: Send + 'static>(job: impl FnOnce() -> R + Send + 'static) -> Result<R, String> {
    let (rtx, rrx) = std::sync::mpsc::channel::<R>();
    let (tid, progress) = EXECUTOR.with(|e| {
        let mut e = e.borrow_mut();
        if e.is_none() {
            *e = Some(Executor::spawn());
        }
        let ex = e.as_ref().unwrap();
        ex.tx
            .send(Box::new(move || {
                let _ = rtx.send(job());
            }))
            .expect("executor alive");
        (ex.tid.clone(), ex.progress.clone())
    });
    let mut waited = 0u32;
    loop {
        match rrx.recv_timeout(std::time::Duration::from_millis(if waited == 0 { 50 } else { 1000 })) {
            Ok(r) => return Ok(r),
            Err(std::sync::mpsc::RecvTimeoutError::Disconnected) => {
                EXECUTOR.with(|e| *e.borrow_mut() = None);
                return Err("harness: the executor thread died".into());
            }
            Err(std::sync::mpsc::RecvTimeoutError::Timeout) => {
                waited += 1;
                crate::engine::heartbeat();
                let t = tid.load(std::sync::atomic::Ordering::Acquire);
                if waited >= 2 && t != 0 && blocked_for_good(t) {
                    // is it still inside the same execution?
                    if let Ok(r) = rrx.try_recv() {
                        return Ok(r);
                    }
                    let (what, given, taken) = progress.lock().map(|p| p.clone()).unwrap_or_default();
                    EXECUTOR.with(|e| *e.borrow_mut() = None);
                    return Err(format!(
                        "deadlock on {what}: after the scheduling decisions {taken:?} (schedule given: {given:?}) the resumed thread is blocked inside its call \
                         (kernel state S, no CPU time and no context switch over 2 s) although it is the only thread that can run: nothing can ever wake it"
                    ));
                }
            }
        }
    }
}

pub static TIMEOUTS: std::sync::atomic::AtomicU64 = std::sync::atomic::AtomicU64::new(0);

/// Was some thread pre-empted between its finished check and its indexing lock while another
/// thread went through its own indexing section?
fn window_hit(trace: &[(usize, Ev)]) -> bool {
    for (i, (a, ev)) in trace.iter().enumerate() {
        if *ev != Ev::Yield(2) {
            continue;
        }
        // a's next own event marks the end of its pre-emption window
        let end = trace[i + 1..].iter().position(|(t, _)| t == a).map(|p| i + 1 + p).unwrap_or(trace.len());
        let mut in_section: Vec<usize> = vec![];
        for (b, e) in &trace[i + 1..end] {
            if *e == Ev::Yield(2) {
                in_section.push(*b);
            } else if in_section.contains(b) {
                return true; // b passed its yield(2) and came out of get_line's indexing section
            }
        }
    }
    false
}

fn judge(sc: &Scenario, ex: &Execution, schedule: &[u8]) -> Result<(), String> {
    if let Some(d) = &ex.deadlock {
        return Err(format!("deadlock on text {:?}, threads {:?}: {d}; schedule {schedule:?}", sc.text, sc.threads));
    }
    if ex.stalled {
        println!("INCONCLUSIVE property=C16 an execution did not finish within 100000 scheduling decisions; scenario {sc:?} schedule {schedule:?}");
        std::process::exit(2);
    }
    for (t, calls) in sc.threads.iter().enumerate() {
        for (k, call) in calls.iter().enumerate() {
            let want = expected(&sc.text, *call);
            let got = ex.answers.get(t).and_then(|a| a.get(k));
            if got != Some(&want) {
                return Err(format!(
                    "thread {t} call {k} {call:?} on text {:?} returned {got:?}, a fresh single-threaded view returns {want:?}; schedule {schedule:?}",
                    sc.text
                ));
            }
        }
    }
    for (call, got) in &ex.after {
        let want = expected(&sc.text, *call);
        if *got != want {
            return Err(format!(
                "after all threads finished, {call:?} on the same view returned {got:?} (expected {want:?}): the view is unusable for later callers; schedule {schedule:?}"
            ));
        }
    }
    Ok(())
}

fn check(c: &Case, obs: &mut Obs) -> Verdict {
    install_hook();
    // the executions run on this worker's executor thread; this thread only waits (and decides
    // whether the executor is blocked for good)
    let c2 = c.clone();
    match on_executor(move || {
        let mut o = Obs::default();
        let v = check_on_executor(&c2, &mut o);
        (v, o)
    }) {
        Ok((v, o)) => {
            for cl in o.classes {
                obs.class(cl);
            }
            obs.nontrivial |= o.nontrivial;
            obs.excluded_known += o.excluded_known;
            obs.inner_evals += o.inner_evals;
            v
        }
        Err(d) => Verdict::Fail(d),
    }
}

fn check_on_executor(c: &Case, obs: &mut Obs) -> Verdict {
    let sc = &c.scenario;
    if sc.threads.is_empty() || sc.threads.len() > 6 {
        return Verdict::Fail("harness: 1..6 threads expected".into());
    }
    obs.class_if(sc.threads.len() >= 3, ">=3-threads");
    obs.class_if(sc.threads.iter().flatten().any(|c| matches!(c, Call::GetLine(i) if *i as usize >= ref_lines(&sc.text).len())), "absent-line-request");
    obs.class_if(
        sc.threads.iter().flatten().any(|c| matches!(c, Call::LineCount)) && sc.threads.iter().flatten().any(|c| matches!(c, Call::GetLine(_))),
        "line_count-racing-get_line",
    );
    obs.class_if(sc.threads.iter().flatten().any(|c| matches!(c, Call::Lines)), "lines-iterator");
    match &c.schedule {
        Some(s) => {
            let ex = execute(sc, s);
            obs.inner_evals += 1;
            // determinism self-check: the same (scenario, schedule) must give the same execution
            let again = execute(sc, s);
            if again.trace != ex.trace || again.answers != ex.answers || again.decisions != ex.decisions {
                return Verdict::Fail(format!(
                    "harness: execution is not a deterministic function of the schedule: trace1={:?} trace2={:?} answers1={:?} answers2={:?} decisions1={:?} decisions2={:?}",
                    ex.trace, again.trace, ex.answers, again.answers, ex.decisions, again.decisions
                ));
            }
            if window_hit(&ex.trace) {
                obs.class("window:preempted-between-finished-check-and-lock-while-another-thread-indexes");
                obs.nontrivial();
            }
            match judge(sc, &ex, s) {
                Ok(()) => Verdict::Pass,
                Err(e) => Verdict::Fail(e),
            }
        }
        None => {
            // stateless DFS over all interleavings
            let mut prefix: Vec<u8> = vec![];
            let mut hit = false;
            let mut count = 0u64;
            loop {
                let ex = execute(sc, &prefix);
                count += 1;
                if count % 256 == 0 {
                    crate::engine::heartbeat();
                }
                if !hit && window_hit(&ex.trace) {
                    hit = true;
                }
                let taken: Vec<u8> = ex.decisions.iter().map(|d| d.0 as u8).collect();
                if let Err(e) = judge(sc, &ex, &taken) {
                    return Verdict::Fail(format!("{e} [found by exhaustive DFS after {count} executions]"));
                }
                // next schedule: increment the last decision that has an alternative left
                let mut next: Option<Vec<u8>> = None;
                for k in (0..ex.decisions.len()).rev() {
                    let (pick, options) = ex.decisions[k];
                    if pick + 1 < options {
                        let mut p: Vec<u8> = taken[..k].to_vec();
                        p.push(pick as u8 + 1);
                        next = Some(p);
                        break;
                    }
                }
                match next {
                    Some(p) => prefix = p,
                    None => break,
                }
                if count > 3_000_000 {
                    return Verdict::Fail("harness: scenario too large for exhaustive exploration".into());
                }
            }
            obs.inner_evals += count;
            obs.class("explored-exhaustively");
            if hit {
                obs.class("window:preempted-between-finished-check-and-lock-while-another-thread-indexes");
                obs.nontrivial();
            }
            Verdict::Pass
        }
    }
}

// --- scenario enumeration ----------------------------------------------------------------------

const TEXTS: &[&str] = &["", "a", "a\n", "a\nb", "a\r\nb\n", "\n\n", "a\nb\nc", "a\r"];

fn calls_for(text: &str) -> Vec<Call> {
    let n = ref_lines(text).len() as u32;
    let mut v = vec![Call::GetLine(0), Call::GetLine(n - 1), Call::GetLine(n), Call::GetLine(u32::MAX), Call::LineCount];
    v.dedup();
    v
}

fn exhaustive(t: Tier) -> Box<dyn Iterator<Item = Case>> {
    let mut out = vec![];
    for text in TEXTS {
        let calls = calls_for(text);
        // 2 threads x 1 call, with the lines() iterator as well
        let mut c1 = calls.clone();
        c1.push(Call::Lines);
        c1.push(Call::LinesHeld);
        let nlines = ref_lines(text).len();
        for a in &c1 {
            for b in &c1 {
                // two racing lines() iterators have ~C(4n+2, 2n+1) interleavings: quick keeps them to short texts
                if matches!(a, Call::Lines | Call::LinesHeld) && matches!(b, Call::Lines | Call::LinesHeld) && nlines > 2 && t == Tier::Quick {
                    continue;
                }
                out.push(Scenario { text: text.to_string(), threads: vec![vec![*a], vec![*b]] });
            }
        }
        // 3 threads x 1 call
        for (i, a) in calls.iter().enumerate() {
            for (j, b) in calls.iter().enumerate() {
                for (k, c) in calls.iter().enumerate() {
                    // the three threads are symmetric: quick keeps one order per multiset
                    if (i <= j && j <= k) || t == Tier::Thorough {
                        out.push(Scenario { text: text.to_string(), threads: vec![vec![*a], vec![*b], vec![*c]] });
                    }
                }
            }
        }
        // 2 threads x 2 calls
        for a in &calls {
            for b in &calls {
                for c in &calls {
                    for d in &calls {
                        let keep = match t {
                            Tier::Thorough => true,
                            // quick: a third of the combinations, spread deterministically
                            Tier::Quick => {
                                let h = crate::engine::digest(&(text, format!("{a:?}{b:?}{c:?}{d:?}")));
                                h % 3 != 7
                            }
                        };
                        if keep {
                            out.push(Scenario { text: text.to_string(), threads: vec![vec![*a, *b], vec![*c, *d]] });
                        }
                    }
                }
            }
        }
        // 2 threads x 2 calls with a lines() iterator among them (short texts: the iterator makes one
        // get_line call per line)
        if nlines <= 2 || t == Tier::Thorough {
            for a in &calls {
                for b in &calls {
                    for c in &calls {
                        out.push(Scenario { text: text.to_string(), threads: vec![vec![Call::Lines, *a], vec![*b, *c]] });
                        out.push(Scenario { text: text.to_string(), threads: vec![vec![*a, Call::Lines], vec![*b, *c]] });
                    }
                }
            }
        }
        {
            // 4 threads x 1 call on the two smallest texts; 2 threads x 3 calls sampled
            if text.len() <= 1 {
                for a in &calls {
                    for b in &calls {
                        out.push(Scenario { text: text.to_string(), threads: vec![vec![*a], vec![*b], vec![calls[0]], vec![Call::LineCount]] });
                    }
                }
            }
            for a in &calls {
                for b in &calls {
                    out.push(Scenario { text: text.to_string(), threads: vec![vec![*a, *b, Call::LineCount], vec![*b, Call::GetLine(0), *a]] });
                }
            }
        }
    }
    Box::new(out.into_iter().map(|scenario| Case { scenario, schedule: None }))
}

fn call_strategy() -> BoxedStrategy<Call> {
    prop_oneof![
        5 => prop_oneof![0u32..5, Just(u32::MAX)].prop_map(Call::GetLine),
        2 => Just(Call::LineCount),
        1 => Just(Call::Lines),
    ]
    .boxed()
}

fn random(_t: Tier) -> BoxedStrategy<Case> {
    (
        prop_oneof![
            3 => proptest::sample::select(TEXTS).prop_map(|s| s.to_string()),
            2 => vec(proptest::sample::select(vec!["a", "\n", "\r\n", "b"]), 0..6).prop_map(|v| v.concat()),
            1 => (1020usize..1040).prop_map(|n| "x\n".repeat(n)),
        ],
        vec(vec(call_strategy(), 1..4), 2..5),
        vec(0u8..4, 0..40),
    )
        .prop_map(|(text, mut threads, schedule)| {
            if text.len() > 1000 {
                // a lines() walk over a long text is thousands of scheduling points: use the
                // other calls there, and ask for late lines too
                for (k, c) in threads.iter_mut().flatten().enumerate() {
                    match c {
                        Call::Lines => *c = Call::LineCount,
                        Call::GetLine(i) if *i < 5 && k % 2 == 0 => *c = Call::GetLine(*i * 256 + 3),
                        _ => {}
                    }
                }
            }
            Case { scenario: Scenario { text, threads }, schedule: Some(schedule) }
        })
        .boxed()
}

/// Free-running stress on real threads with the hook removed: threads released by a barrier
/// on a fresh view, same oracle.
fn run_stress(ctx: &mut Ctx) {
    if ctx.failed() {
        return;
    }
    sourcemap::verif_hooks::set_yield_hook(None);
    let base_rounds = ctx.tier.pick(3_000u64, 300_000);
    // second phase ("bursts"): four threads make their *first* call on a fresh small view at the same
    // instant, one call each - the windows that only open while the index is being built
    let rounds = base_rounds + ctx.tier.pick(16_000u64, 400_000);
    let tiny = ["", "a", "a\nb", "a\r\nb\n", "x\ny\nz"];
    let texts = [
        "",
        "a",
        "a\nb",
        "a\r\nb\nc\rd\n",
        "\n\n\n",
        "line\n".repeat(50).as_str().to_string().leak(),
        // long texts: indexing takes long enough for threads to meet inside it
        "l\n".repeat(1500).as_str().to_string().leak(),
        "some longer line of text\r\n".repeat(5000).as_str().to_string().leak(),
    ];
    let mut evals = 0u64;
    let mut nontrivial = 0u64;
    for round in 0..rounds {
        if round % 512 == 0 {
            crate::engine::heartbeat();
        }
        let burst = round >= base_rounds;
        let text = if burst { tiny[(round % tiny.len() as u64) as usize] } else { texts[(round % texts.len() as u64) as usize] };
        let nthreads = if burst { 4 } else { 2 + (round / texts.len() as u64 % 7) as usize * 2 }; // 2..14
        let nlines = ref_lines(text).len() as u32;
        let view = Arc::new(SourceView::new(text.to_string().into()));
        let barrier = Arc::new(Barrier::new(nthreads));
        let tids: Vec<Arc<std::sync::atomic::AtomicU64>> = (0..nthreads).map(|_| Arc::new(std::sync::atomic::AtomicU64::new(0))).collect();
        let handles: Vec<_> = (0..nthreads)
            .map(|t| {
                let view = view.clone();
                let barrier = barrier.clone();
                let tid = tids[t].clone();
                let calls: Vec<Call> = if burst {
                    vec![match (t as u64 * 5 + round / 5) % 6 {
                        0 | 1 => Call::LineCount,
                        2 => Call::GetLine(0),
                        3 => Call::GetLine(nlines - 1),
                        4 => Call::GetLine(nlines),
                        _ => Call::Lines,
                    }]
                } else {
                    match (t as u64 + round) % 5 {
                    0 => vec![Call::GetLine(nlines - 1), Call::LineCount],
                    1 => vec![Call::LineCount, Call::GetLine(0)],
                    2 => vec![Call::GetLine(nlines), Call::GetLine((t as u32) % nlines)],
                    3 => vec![Call::CloneLines, Call::GetLine(nlines), Call::LinesHeld],
                    _ => vec![Call::Lines],
                    }
                };
                std::thread::spawn(move || {
                    if let Ok(l) = std::fs::read_link("/proc/thread-self") {
                        if let Some(x) = l.file_name().and_then(|f| f.to_str()).and_then(|f| f.parse::<u64>().ok()) {
                            tid.store(x, std::sync::atomic::Ordering::Release);
                        }
                    }
                    barrier.wait();
                    calls.into_iter().map(|c| (c, perform(&view, c))).collect::<Vec<_>>()
                })
            })
            .collect();
        // Wait for the round. Structural deadlock detection as for the scheduler subs: the view is
        // private to this round, so only its own threads can make each other progress; if every
        // unfinished one is asleep in the kernel (state S) without CPU time or context switches
        // over 40 samples in 2 s, they wait for each other for good.
        let started = std::time::Instant::now();
        let mut polls = 0u32;
        while handles.iter().any(|h| !h.is_finished()) {
            polls += 1;
            if polls < 2_000 {
                std::thread::yield_now();
            } else {
                std::thread::sleep(std::time::Duration::from_micros(200));
            }
            if started.elapsed().as_millis() >= 1_500 {
                let stuck: Vec<u64> = handles
                    .iter()
                    .zip(&tids)
                    .filter(|(h, _)| !h.is_finished())
                    .map(|(_, t)| t.load(std::sync::atomic::Ordering::Acquire))
                    .collect();
                let first: Vec<_> = stuck.iter().map(|t| thread_sample(*t)).collect();
                let mut all_blocked = !stuck.is_empty() && first.iter().all(|s| matches!(s, Some(('S', _, _))));
                for _ in 0..40 {
                    if !all_blocked {
                        break;
                    }
                    std::thread::sleep(std::time::Duration::from_millis(50));
                    let now: Vec<_> = stuck.iter().map(|t| thread_sample(*t)).collect();
                    all_blocked = now == first;
                }
                if all_blocked && handles.iter().zip(&tids).filter(|(h, _)| !h.is_finished()).count() == stuck.len() {
                    let case = Case { scenario: Scenario { text: text.to_string(), threads: vec![vec![Call::GetLine(nlines - 1), Call::LineCount], vec![Call::LineCount, Call::GetLine(0)]] }, schedule: None };
                    ctx.fail(
                        "stress",
                        &case,
                        format!(
                            "free-running stress round {round}: deadlock on {text:?} ({nthreads} threads): {} thread(s) are blocked inside their calls (kernel state S, no CPU time and no context switch over 2 s) and no other thread has access to the view",
                            stuck.len()
                        ),
                    );
                    return;
                }
                crate::engine::heartbeat();
            }
        }
        for h in handles {
            for (call, got) in h.join().unwrap_or_default() {
                let want = expected(text, call);
                if got != want {
                    let case = Case {
                        scenario: Scenario { text: text.to_string(), threads: vec![vec![call]; nthreads.min(4)] },
                        schedule: None,
                    };
                    ctx.fail("stress", &case, format!("free-running stress round {round}: {call:?} on {text:?} returned {got:?}, expected {want:?} ({nthreads} threads)"));
                    return;
                }
            }
        }
        for call in [Call::GetLine(0), Call::LineCount] {
            if perform(&view, call) != expected(text, call) {
                let case = Case { scenario: Scenario { text: text.to_string(), threads: vec![vec![call]; 2] }, schedule: None };
                ctx.fail("stress", &case, format!("free-running stress round {round}: view unusable afterwards ({call:?})"));
                return;
            }
        }
        evals += 1;
        if nthreads >= 4 && nlines >= 2 {
            nontrivial += 1;
        }
    }
    // rounds with the same (text, thread count, role rotation) repeat: count distinct configurations
    let distinct = (texts.len() as u64 * 7 * 4).min(nontrivial);
    ctx.extra.insert("scheduler_wait_timeouts".into(), json!(TIMEOUTS.load(std::sync::atomic::Ordering::Relaxed)));
    ctx.bulk("stress", evals, distinct);
    ctx.sample(json!({"sub": "stress", "rounds": evals, "threads": "2..14 released by a barrier", "texts": texts}));
}

fn stress_check(_c: &Case, _obs: &mut Obs) -> Verdict {
    // a stress failure is not replayable by schedule; the scenario is re-explored exhaustively
    Verdict::Pass
}

fn subs() -> Vec<Sub> {
    let ex = enum_sub("exhaustive_interleavings", exhaustive, check);
    let run = ex.run;
    let _ = stress_check;
    vec![
        Sub {
            run: Box::new(move |ctx| {
                install_hook();
                run(ctx);
                if !ctx.failed() {
                    ctx.note_exhaustive("every interleaving of the yield points (call start, after the cached-line check, after the finished check) for each enumerated scenario shape: 2 threads x 1 call (incl. lines()), 3 threads x 1 call, 2 threads x 2 calls (with a lines() iterator among them on texts of <= 2 lines; thorough: all texts), 4 x 1 on the two smallest texts, 2 x 3 samples");
                }
            }),
            ..ex
        },
        gen_sub("random_schedules", random, |t| t.pick(40_000, 1_500_000), check),
        custom_sub::<Case>("stress", run_stress, check),
    ]
}

pub const DEF: PropertyDef = PropertyDef {
    id: "C16",
    rule: "exhaustive_interleavings: scenario = text (8 texts of 1..3 lines) x per-thread call lists from {get_line(0), get_line(last), \
           get_line(count), get_line(u32::MAX), line_count, lines}; each case explores EVERY interleaving of its threads' steps by stateless \
           DFS (inner evaluations = executions). random_schedules: proptest (scenario of 2..4 threads x 1..3 calls, schedule of <= 40 \
           choices). stress: free-running real threads (2..14) released by a barrier, hook not parking. Oracle: every call returns what a \
           fresh single-threaded view returns (reference splitter), no panic, no call blocked for good (deadlock), and the view still answers get_line(0), get_line(last), \
           line_count afterwards. Non-trivial = some thread was pre-empted between its finished check and its indexing lock while another \
           thread went through the indexing section (measured on the scheduler trace)",
    assumptions: &[
        "the scheduler is sequentially consistent: bugs that need hardware reordering of the Relaxed atomics are only probed by the stress run",
        "no yield point lies inside a critical section, so a running thread can never block on the view's mutex held by a parked thread",
        "the scenario threads of the scheduler subs are fibers of one OS thread: what two threads do at the same instant inside a critical section or between two atomics is only probed by the stress run",
        "deadlock = the executor thread (which runs nothing but the fibers of one private view) is asleep in the kernel with no CPU time and no context switch over 40 samples in 2 s; an execution that exceeds 100000 scheduling decisions, or any other lack of progress, is inconclusive (exit 2), never a violation",
    ],
    subs,
};
