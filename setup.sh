#!/bin/bash
# Run once after a fresh restore, offline: builds the harness from files on disk only.
# The libFuzzer targets (thorough tiers of C05, C12, C20) are pre-built as well; the checks
# rebuild them on demand anyway, so a failure here is not fatal.
set -e
export CARGO_NET_OFFLINE=true
export PATH="$HOME/.cargo/bin:$PATH"
cd /verif/harness
cargo build --release --offline 2>&1 | tail -3
for t in c05 c06 c12 c20; do
    RUSTFLAGS="--cfg sourcemap_verif" cargo +nightly fuzz build "$t" >/dev/null 2>&1 || echo "note: fuzz target $t not pre-built (will be built by the thorough tier)"
done
echo "setup done"
