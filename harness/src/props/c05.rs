//! C05 — untrusted bytes never crash the library.
//!
//! `battery` is the oracle shared by the proptest subs and the libFuzzer target
//! (`fuzz/fuzz_targets/c05.rs`): every decoding / detection entry point, an allocation
//! bound, and — when a map comes back — every read-only query, serialisation (which must
//! decode again), rewriting and flattening, all under `catch_unwind` in a build with
//! overflow checks and debug assertions.

use proptest::collection::vec;
use proptest::prelude::*;
use serde::{Deserialize, Serialize};
use sourcemap::{
    decode, decode_data_url, decode_slice, is_sourcemap, is_sourcemap_slice,
    locate_sourcemap_reference, locate_sourcemap_reference_slice, DecodedMap, SourceMap,
    SourceMapHermes, SourceMapIndex, SourceView,
};

use super::c02::doc_strategy;
use super::common::rewrite_opts;
use crate::engine::{count_alloc, custom_sub, gen_sub, guard, Ctx, Obs, PropertyDef, Sub, Tier, Verdict};
use crate::model::*;
use crate::refimpl::v3::json_str;
use crate::refimpl::vlq as rv;

pub fn corpus_dir() -> std::path::PathBuf {
    crate::engine::verif_root().join("corpus/c05")
}

// ---------------------------------------------------------------------------------------
// the battery
// ---------------------------------------------------------------------------------------

macro_rules! g {
    ($what:expr, $e:expr) => {
        match guard(|| $e) {
            Ok(v) => v,
            Err(p) => return Err(format!("{}: {}", $what, p)),
        }
    };
}

fn max_line(sm: &SourceMap) -> u32 {
    let n = sm.get_token_count();
    if n == 0 {
        0
    } else {
        sm.get_token(n as usize - 1).map(|t| t.get_dst_line()).unwrap_or(0)
    }
}

fn max_line_any(m: &DecodedMap) -> u32 {
    match m {
        DecodedMap::Regular(sm) => max_line(sm),
        DecodedMap::Hermes(h) => max_line(h),
        DecodedMap::Index(i) => i
            .sections()
            .filter_map(|s| s.get_sourcemap().map(max_line_any))
            .max()
            .unwrap_or(0),
    }
}

/// K3: third-party `debugid` prints some ids in a form its own parser rejects
/// (PDB-2.0 style id with age 0). Signature: the map (or a nested one) carries an id whose
/// Display form does not parse.
fn has_unparsable_debug_id(m: &DecodedMap) -> bool {
    let bad = |sm: &SourceMap| {
        sm.get_debug_id()
            .map(|id| id.to_string().parse::<debugid::DebugId>().is_err())
            .unwrap_or(false)
    };
    match m {
        DecodedMap::Regular(sm) => bad(sm),
        DecodedMap::Hermes(h) => bad(h),
        DecodedMap::Index(i) => i
            .sections()
            .any(|s| s.get_sourcemap().map(has_unparsable_debug_id).unwrap_or(false)),
    }
}

pub enum BatteryEnd {
    Ok,
    Known(&'static str, String),
}

fn tokens_battery(sm: &SourceMap, text: &SourceView, stages: &mut Vec<&'static str>, fast: Option<u64>) -> Result<(), String> {
    let n = sm.get_token_count() as usize;
    g!("token iteration/formatting", {
        let mut k = 0usize;
        for t in sm.tokens() {
            k += 1;
            let _ = format!("{t} {t:?} {t:#}");
            let _ = t.to_tuple();
            let _ = (t.get_dst(), t.get_src(), t.get_src_id(), t.get_name_id(), t.has_source(), t.has_name(), t.is_range());
            let _ = t.get_raw_token();
            let _ = t.get_source_view().map(|v| v.source().len());
            let _ = t.sourcemap().get_token_count();
            // consequence clause of C06
            if t.get_src_id() != !0 && t.get_source().is_none() {
                panic!("token {k} has an unresolvable source id {}", t.get_src_id());
            }
            if t.get_name_id() != !0 && t.get_name().is_none() {
                panic!("token {k} has an unresolvable name id {}", t.get_name_id());
            }
        }
        assert_eq!(k, n, "tokens() length vs get_token_count()");
    });
    stages.push("tokens");
    g!("map Debug formatting", {
        if n < 400 {
            let _ = format!("{sm:?}");
        }
    });
    // accessors with boundary indices
    g!("accessors", {
        let ns = sm.get_source_count();
        let nn = sm.get_name_count();
        for i in [0u32, ns.wrapping_sub(1), ns, ns.wrapping_add(1), u32::MAX, u32::MAX - 1] {
            let _ = sm.get_source(i);
            let _ = sm.get_source_contents(i);
            let _ = sm.get_source_view(i).map(|v| v.line_count());
        }
        for i in [0u32, nn.wrapping_sub(1), nn, u32::MAX] {
            let _ = sm.get_name(i);
        }
        for i in [0usize, n.wrapping_sub(1), n, n + 1, usize::MAX, u32::MAX as usize] {
            let _ = sm.get_token(i).map(|t| t.to_tuple());
        }
        let _ = sm.sources().count();
        let _ = sm.names().count();
        let _ = sm.source_contents().count();
        let _ = sm.ignore_list().count();
        let _ = (sm.get_file(), sm.get_source_root(), sm.get_debug_id(), sm.has_names());
    });
    stages.push("accessors");
    // lookups
    let mut qs: Vec<(u32, u32)> = vec![(0, 0), (u32::MAX, u32::MAX), (0, u32::MAX), (u32::MAX, 0)];
    let step = (n / if fast.is_some() { 120 } else { 600 }).max(1);
    for t in sm.tokens().step_by(step) {
        let (l, c) = t.get_dst();
        qs.extend([
            (l, c),
            (l, c.wrapping_add(1)),
            (l, c.wrapping_sub(1)),
            (l, u32::MAX),
            (l.wrapping_add(1), 0),
            (l.wrapping_add(1), c),
            (l.wrapping_add(2), u32::MAX),
            (l.wrapping_sub(1), c),
        ]);
    }
    for q in &qs {
        g!(format!("lookup_token{q:?}"), {
            if let Some(t) = sm.lookup_token(q.0, q.1) {
                let _ = format!("{t:#}");
                let _ = t.get_src_col();
            }
            let mut it = sm.tokens();
            if it.seek(q.0, q.1) {
                let _ = it.next().map(|t| t.get_dst());
            }
        });
    }
    stages.push("lookups");
    // function-name resolution against a text derived from the input
    let views: Vec<&SourceView> = std::iter::once(text)
        .chain((0..sm.get_source_count().min(3)).filter_map(|i| sm.get_source_view(i)))
        .collect();
    let nq = if fast.is_some() { 6 } else { 24 };
    let fq: Vec<(u32, u32)> = qs.iter().copied().take(nq).chain(qs.iter().rev().copied().take(nq)).collect();
    let all_names = ["a", "function", "é", "𝒳x", "", "a b", "onFailure"];
    let names: Vec<&str> = match fast {
        None => all_names.to_vec(),
        Some(sel) => vec![all_names[(sel % 7) as usize], all_names[((sel >> 8) % 7) as usize], "é"],
    };
    let views: Vec<&SourceView> = if fast.is_some() { views.into_iter().take(2).collect() } else { views };
    for sv in views {
        for q in &fq {
            for name in names.iter().copied() {
                g!(format!("get_original_function_name{q:?} {name:?}"), {
                    let _ = sm.get_original_function_name(q.0, q.1, name, sv);
                });
            }
        }
    }
    stages.push("function-names");
    Ok(())
}

fn rewrite_sets(fast: Option<u64>) -> Vec<(bool, bool, Vec<&'static str>)> {
    let all = rewrite_sets_all();
    match fast {
        None => all,
        Some(sel) => {
            let a = (sel >> 16) as usize % all.len();
            let b = (sel >> 24) as usize % all.len();
            vec![all[a].clone(), all[b].clone()]
        }
    }
}

fn rewrite_sets_all() -> Vec<(bool, bool, Vec<&'static str>)> {
    let mut v = vec![];
    for names in [true, false] {
        for contents in [true, false] {
            for prefixes in [vec![], vec!["~"], vec!["/abs", "src/", "a"]] {
                v.push((names, contents, prefixes));
            }
        }
    }
    v
}

fn light(sm: &SourceMap) -> Result<(), String> {
    g!("iterating a derived map", {
        for t in sm.tokens() {
            let _ = format!("{t:#}");
        }
        let _ = sm.lookup_token(0, 0).map(|t| t.to_tuple());
        let _ = sm.lookup_token(u32::MAX, u32::MAX).map(|t| t.to_tuple());
    });
    if max_line(sm) < 100_000 {
        let mut out = vec![];
        match g!("serialising a derived map", sm.to_writer(&mut out)) {
            Ok(()) => {}
            Err(e) => return Err(format!("serialising a derived map failed: {e}")),
        }
        let again = g!("re-decoding a derived map", decode_slice(&out));
        if let Err(e) = again {
            let as_decoded = DecodedMap::Regular(sm.clone());
            if !has_unparsable_debug_id(&as_decoded) {
                return Err(format!("a derived map does not decode after serialisation: {e}; bytes={}", String::from_utf8_lossy(&out)));
            }
        }
    }
    Ok(())
}

fn map_battery(m: &DecodedMap, text: &SourceView, stages: &mut Vec<&'static str>, depth: u32, fast: Option<u64>) -> Result<BatteryEnd, String> {
    let mut known: Option<(&'static str, String)> = None;
    match m {
        DecodedMap::Regular(sm) => {
            tokens_battery(sm, text, stages, fast)?;
            for (names, contents, prefixes) in rewrite_sets(fast) {
                let opts = rewrite_opts(names, contents, &prefixes);
                match g!(format!("rewrite(names={names}, contents={contents}, prefixes={prefixes:?})"), sm.clone().rewrite(&opts)) {
                    Ok(r) => light(&r)?,
                    Err(e) => return Err(format!("in-memory rewrite failed: {e}")),
                }
            }
            stages.push("rewrite");
        }
        DecodedMap::Hermes(h) => {
            tokens_battery(h, text, stages, fast)?;
            g!("hermes scopes", {
                for t in h.tokens() {
                    let _ = h.get_scope_for_token(t);
                }
                for off in [0u32, 1, 7, 100, 65535, u32::MAX - 1, u32::MAX] {
                    let _ = h.get_original_function_name(off);
                }
                for t in h.tokens().take(200) {
                    if t.get_dst_line() == 0 {
                        let _ = h.get_original_function_name(t.get_dst_col());
                        let _ = h.get_original_function_name(t.get_dst_col().wrapping_add(1));
                    }
                }
            });
            stages.push("hermes-scopes");
            for (names, contents, prefixes) in rewrite_sets(fast) {
                let opts = rewrite_opts(names, contents, &prefixes);
                match g!(format!("hermes rewrite(names={names}, contents={contents}, prefixes={prefixes:?})"), h.clone().rewrite(&opts)) {
                    Ok(r) => {
                        g!("scopes after rewrite", {
                            for t in r.tokens() {
                                let _ = r.get_scope_for_token(t);
                            }
                        });
                        light(&r)?;
                        let mut out = vec![];
                        if max_line(&r) < 100_000 {
                            let _ = g!("serialising a rewritten hermes map", r.to_writer(&mut out));
                        }
                    }
                    Err(e) => return Err(format!("in-memory hermes rewrite failed: {e}")),
                }
            }
            stages.push("rewrite");
        }
        DecodedMap::Index(i) => {
            g!("index accessors", {
                let n = i.get_section_count();
                for k in [0u32, n.wrapping_sub(1), n, u32::MAX] {
                    let _ = i.get_section(k).map(|s| (s.get_offset(), s.get_url().map(str::len)));
                }
                let _ = (i.get_file(), i.is_for_ram_bundle(), i.x_facebook_offsets().map(|x| x.len()), i.x_metro_module_paths().map(|x| x.len()));
                let _ = format!("{:?}", i.sections().map(|s| s.get_offset()).collect::<Vec<_>>());
            });
            let mut qs = vec![(0u32, 0u32), (u32::MAX, u32::MAX)];
            for s in i.sections() {
                let (l, c) = s.get_offset();
                qs.extend([(l, c), (l, c.wrapping_add(1)), (l, c.wrapping_sub(1)), (l, 0), (l, u32::MAX), (l.wrapping_add(1), 0), (l.wrapping_add(1), c), (l.wrapping_sub(1), u32::MAX)]);
                if let Some(DecodedMap::Regular(sm)) = s.get_sourcemap() {
                    for t in sm.tokens().take(50) {
                        let (tl, tc) = t.get_dst();
                        qs.push((tl.wrapping_add(l), if tl == 0 { tc.wrapping_add(c) } else { tc }));
                    }
                }
            }
            let as_decoded = m;
            for q in &qs {
                g!(format!("index lookup_token{q:?}"), {
                    let _ = i.lookup_token(q.0, q.1).map(|t| format!("{t:#}"));
                    let _ = as_decoded.lookup_token(q.0, q.1).map(|t| t.to_tuple());
                    let _ = i.get_original_function_name(q.0, q.1, "a", text);
                    let _ = as_decoded.get_original_function_name(q.0, q.1, Some("function"), Some(text));
                });
            }
            stages.push("index-lookups");
            if depth < 3 {
                for s in i.sections() {
                    if let Some(inner) = s.get_sourcemap() {
                        if let BatteryEnd::Known(k, w) = map_battery(inner, text, stages, depth + 1, fast)? {
                            known = Some((k, w));
                        }
                    }
                }
            }
            match g!("flatten", i.flatten()) {
                Ok(flat) => {
                    stages.push("flatten-ok");
                    let mut sub = vec![];
                    tokens_battery(&flat, text, &mut sub, fast)?;
                    light(&flat)?;
                    match g!("flatten_and_rewrite", i.clone().flatten_and_rewrite(&rewrite_opts(true, true, &["~"]))) {
                        Ok(r) => light(&r)?,
                        Err(e) => return Err(format!("flatten succeeded but flatten_and_rewrite failed: {e}")),
                    }
                }
                Err(_) => stages.push("flatten-err"),
            }
        }
    }
    // DecodedMap-level helpers
    g!("DecodedMap helpers", {
        let _ = m.lookup_token(0, 0).map(|t| t.to_tuple());
        let _ = m.get_original_function_name(0, 0, None, None);
        let _ = m.get_original_function_name(0, 5, Some("a"), Some(text));
        let _ = m.get_original_function_name(1, 5, Some("a"), None);
    });
    // serialisation must decode again
    if max_line_any(m) < 100_000 {
        let mut out = vec![];
        match g!("serialisation", m.to_writer(&mut out)) {
            Ok(()) => {}
            Err(e) => return Err(format!("serialisation failed: {e}")),
        }
        stages.push("serialised");
        match g!("re-decoding the serialised form", decode_slice(&out)) {
            Ok(_) => stages.push("re-decoded"),
            Err(e) => {
                if has_unparsable_debug_id(m) {
                    known = Some(("K3", format!("serialised map with debug id that debugid cannot re-parse does not decode again: {e}")));
                } else {
                    return Err(format!("the serialised form does not decode again: {e}; bytes={}", String::from_utf8_lossy(&out)));
                }
            }
        }
        if let DecodedMap::Regular(sm) = m {
            g!("data url", {
                if let Ok(u) = sm.to_data_url() {
                    let _ = decode_data_url(&u);
                }
            });
        }
    } else {
        stages.push("serialisation-skipped(line>=100000)");
    }
    Ok(match known {
        Some((k, w)) => BatteryEnd::Known(k, w),
        None => BatteryEnd::Ok,
    })
}

/// Everything C05 demands of one input. `Err` = violation.
pub fn battery(input: &[u8], stages: &mut Vec<&'static str>) -> Result<BatteryEnd, String> {
    battery_mode(input, stages, None)
}

/// `fast = Some(selector)`: the reduced battery used inside the libFuzzer target (rewrite
/// option sets, candidate names and query positions are selected by the selector, which is
/// a hash of the input, so that a run stays a pure function of the input).
pub fn battery_mode(input: &[u8], stages: &mut Vec<&'static str>, fast: Option<u64>) -> Result<BatteryEnd, String> {
    let (res, alloc) = count_alloc(|| guard(|| decode_slice(input)));
    let res = res.map_err(|p| format!("decode_slice: {p}"))?;
    let bound = 256 * input.len() as u64 + (64 << 10);
    if alloc > bound {
        return Err(format!("decode_slice requested {alloc} bytes for a {}-byte input (bound {bound})", input.len()));
    }
    let (res_r, alloc_r) = count_alloc(|| guard(|| decode(input)));
    let res_r = res_r.map_err(|p| format!("decode(reader): {p}"))?;
    if alloc_r > bound + (16 << 10) {
        return Err(format!("decode(reader) requested {alloc_r} bytes for a {}-byte input", input.len()));
    }
    if res.is_ok() != res_r.is_ok() {
        return Err(format!("decode_slice is {} but decode(reader) is {}", if res.is_ok() { "Ok" } else { "Err" }, if res_r.is_ok() { "Ok" } else { "Err" }));
    }
    g!("detection entry points", {
        let _ = is_sourcemap_slice(input);
        let _ = is_sourcemap(input);
        let _ = locate_sourcemap_reference_slice(input).map(|r| r.map(|r| (r.get_url().len(), r.get_embedded_sourcemap().is_ok())));
        let _ = locate_sourcemap_reference(input).map(|r| r.map(|r| r.resolve("http://example.com/a/b.js")));
        let _ = SourceMap::from_slice(input).is_ok();
        let _ = SourceMap::from_reader(input).is_ok();
        let _ = SourceMapIndex::from_slice(input).is_ok();
        let _ = SourceMapHermes::from_slice(input).is_ok();
        let _ = DecodedMap::from_reader(input).is_ok();
    });
    if let Ok(s) = std::str::from_utf8(input) {
        g!("decode_data_url", {
            let _ = decode_data_url(s);
            let url = format!("data:application/json;base64,{}", crate::refimpl::v3::base64(input));
            let _ = decode_data_url(&url);
        });
    }
    stages.push(match &res {
        Ok(DecodedMap::Regular(_)) => "decoded:regular",
        Ok(DecodedMap::Index(_)) => "decoded:index",
        Ok(DecodedMap::Hermes(_)) => "decoded:hermes",
        Err(sourcemap::Error::BadJson(_)) => "err:json",
        Err(sourcemap::Error::Io(_)) => "err:io(header)",
        Err(sourcemap::Error::VlqLeftover) | Err(sourcemap::Error::VlqNoValues) | Err(sourcemap::Error::VlqOverflow) => "err:vlq",
        Err(sourcemap::Error::BadSegmentSize(_)) => "err:segment-size",
        Err(sourcemap::Error::BadSourceReference(_)) => "err:source-ref",
        Err(sourcemap::Error::BadNameReference(_)) => "err:name-ref",
        Err(sourcemap::Error::InvalidBase64(_)) => "err:base64",
        Err(_) => "err:other",
    });
    match res {
        Err(_) => Ok(BatteryEnd::Ok),
        Ok(m) => {
            let text = SourceView::from_string(String::from_utf8_lossy(input).into_owned());
            map_battery(&m, &text, stages, 0, fast)
        }
    }
}

/// Entry point of the libFuzzer target: aborts (panics) on a violation.
pub fn fuzz_one(data: &[u8]) {
    let mut stages = vec![];
    let sel = crate::engine::digest(&data);
    match battery_mode(data, &mut stages, Some(sel)) {
        Ok(_) => {}
        Err(e) => {
            eprintln!("C05 violation: {e}");
            std::process::abort();
        }
    }
}

// ---------------------------------------------------------------------------------------
// generators
// ---------------------------------------------------------------------------------------

#[derive(Clone, Debug, Hash, Serialize, Deserialize)]
pub enum Mut {
    FlipBit(u16, u8),
    SetByte(u16, u8),
    Insert(u16, u16),
    Delete(u16, u8),
    Truncate(u16),
    Duplicate(u16, u8),
    ReplaceNumber(u8, u8),
    /// replace (insert = false) or insert one character inside the n-th `"mappings":"…"` /
    /// `"rangeMappings":"…"` string: keeps the JSON intact, so the decoder logic is reached
    MapChar { nth: u8, at: u16, ch: u8, insert: bool },
    /// put a junk header line of `len` bytes (terminator included) in front: `start` picks the first byte
    /// among `)]}'`, `ending` the terminator (\n, \r\n, bare \r, none)
    JunkHeader { len: u32, start: u8, ending: u8 },
}

pub const DICT: &[&str] = &[
    "\"version\"", "\"sources\"", "\"names\"", "\"mappings\"", "\"sections\"", "\"sourcesContent\"", "\"sourceRoot\"",
    "\"file\"", "\"ignoreList\"", "\"rangeMappings\"", "\"x_facebook_sources\"", "\"x_facebook_offsets\"",
    "\"x_metro_module_paths\"", "\"debug_id\"", "\"debugId\"", "\"offset\"", "\"line\"", "\"column\"", "\"url\"", "\"map\"",
    "null", "true", "[]", "{}", "[null]", "[[]]", "\"\"", ":", ",", "[", "]", "{", "}", "\"", "\\", ";", "AAAA", "AAAAA",
    "gggggggggggggB", "////////////H", "D", "C", ";;;;", "0", "-1", "4294967295", "4294967296", "2147483648",
    "18446744073709551616", "1e400", ")]}'\n", "\r", "\n", "\u{e9}", "\u{1f600}", "00000000-0", "data:application/json;base64,",
    "//# sourceMappingURL=", "{\"offset\":{\"line\":0,\"column\":0},\"map\":{\"version\":3,\"mappings\":\"AAAA\",\"sources\":[\"a\"]}}",
    "{\"names\":[\"f\"],\"mappings\":\"AAA\"}",
];

const EDGE_NUMS: &[&str] = &["0", "1", "-1", "2147483647", "2147483648", "4294967295", "4294967296", "9223372036854775807", "1e9", "0.5", "99999"];

#[derive(Clone, Debug, Hash, Serialize, Deserialize)]
pub enum Base {
    /// a committed corpus file (repository fixtures and a few valid documents)
    Corpus(u16),
    Doc(DocModel),
    Any(MAny),
    Loose(Loose),
    Bytes(Vec<u8>),
}

#[derive(Clone, Debug, Hash, Serialize, Deserialize)]
pub struct Case {
    pub base: Base,
    pub muts: Vec<Mut>,
}

pub fn corpus_files() -> Vec<(String, Vec<u8>)> {
    let mut v: Vec<(String, Vec<u8>)> = std::fs::read_dir(corpus_dir())
        .map(|rd| {
            rd.filter_map(|e| e.ok())
                .filter(|e| e.path().is_file())
                .filter_map(|e| Some((e.file_name().to_string_lossy().into_owned(), std::fs::read(e.path()).ok()?)))
                .collect()
        })
        .unwrap_or_default();
    v.sort();
    v
}

thread_local! {
    static CORPUS: Vec<(String, Vec<u8>)> = corpus_files();
}

fn apply_muts(mut b: Vec<u8>, muts: &[Mut]) -> Vec<u8> {
    for m in muts {
        let len = b.len();
        match m {
            Mut::FlipBit(p, bit) => {
                if len > 0 {
                    let i = idx16(*p, len);
                    b[i] ^= 1 << (bit % 8);
                }
            }
            Mut::SetByte(p, v) => {
                if len > 0 {
                    let i = idx16(*p, len);
                    b[i] = *v;
                }
            }
            Mut::Insert(p, d) => {
                let i = idx16(*p, len + 1);
                let tok = DICT[idx16(*d, DICT.len())].as_bytes();
                b.splice(i..i, tok.iter().copied());
            }
            Mut::Delete(p, n) => {
                if len > 0 {
                    let i = idx16(*p, len);
                    let e = (i + 1 + *n as usize % 16).min(len);
                    b.drain(i..e);
                }
            }
            Mut::Truncate(p) => {
                b.truncate(idx16(*p, len + 1));
            }
            Mut::Duplicate(p, n) => {
                if len > 0 {
                    let i = idx16(*p, len);
                    let e = (i + 1 + *n as usize % 64).min(len);
                    let chunk: Vec<u8> = b[i..e].to_vec();
                    b.splice(e..e, chunk);
                }
            }
            Mut::MapChar { nth, at, ch, insert } => {
                const SET: &[u8] = b"ABCDEFGgIQhw,;,;/+9z0!=- ";
                let mut spans = vec![];
                for key in [&b"appings\":\""[..]] {
                    let mut i = 0;
                    while i + key.len() <= b.len() {
                        if &b[i..i + key.len()] == key {
                            let s = i + key.len();
                            let e = b[s..].iter().position(|c| *c == b'"').map(|p| s + p).unwrap_or(b.len());
                            spans.push((s, e));
                            i = e;
                        } else {
                            i += 1;
                        }
                    }
                }
                if !spans.is_empty() {
                    let (s, e) = spans[*nth as usize % spans.len()];
                    let c = SET[*ch as usize % SET.len()];
                    if *insert || e == s {
                        let i = s + idx16(*at, e - s + 1);
                        b.insert(i, c);
                    } else {
                        let i = s + idx16(*at, e - s);
                        b[i] = c;
                    }
                }
            }
            Mut::JunkHeader { len, start, ending } => {
                let term: &[u8] = [b"\n".as_slice(), b"\r\n", b"\r", b""][usize::from(*ending) % 4];
                let n = (*len as usize).max(1 + term.len());
                let mut h = vec![b")]}'"[usize::from(*start) % 4]];
                h.resize(n - term.len(), b'x');
                h.extend_from_slice(term);
                h.extend_from_slice(&b);
                b = h;
            }
            Mut::ReplaceNumber(nth, with) => {
                // find the nth run of ASCII digits outside of... anywhere; replace by an edge number
                let mut runs = vec![];
                let mut i = 0;
                while i < b.len() {
                    if b[i].is_ascii_digit() {
                        let s = i;
                        while i < b.len() && b[i].is_ascii_digit() {
                            i += 1;
                        }
                        runs.push((s, i));
                    } else {
                        i += 1;
                    }
                }
                if !runs.is_empty() {
                    let (s, e) = runs[*nth as usize % runs.len()];
                    let w = EDGE_NUMS[*with as usize % EDGE_NUMS.len()].as_bytes();
                    b.splice(s..e, w.iter().copied());
                }
            }
        }
    }
    b
}

pub fn case_bytes(c: &Case) -> Vec<u8> {
    let base = match &c.base {
        Base::Corpus(k) => CORPUS.with(|c| {
            if c.is_empty() {
                b"{}".to_vec()
            } else {
                c[idx16(*k, c.len())].1.clone()
            }
        }),
        Base::Doc(d) => d.to_json().into_bytes(),
        Base::Any(a) => a.to_json().into_bytes(),
        Base::Loose(l) => l.to_json().into_bytes(),
        Base::Bytes(b) => b.clone(),
    };
    apply_muts(base, &c.muts)
}

fn mut_strategy() -> BoxedStrategy<Mut> {
    prop_oneof![
        2 => (any::<u16>(), any::<u8>()).prop_map(|(p, b)| Mut::FlipBit(p, b)),
        2 => (any::<u16>(), any::<u8>()).prop_map(|(p, b)| Mut::SetByte(p, b)),
        4 => (any::<u16>(), any::<u16>()).prop_map(|(p, d)| Mut::Insert(p, d)),
        2 => (any::<u16>(), any::<u8>()).prop_map(|(p, n)| Mut::Delete(p, n)),
        1 => any::<u16>().prop_map(Mut::Truncate),
        1 => (any::<u16>(), any::<u8>()).prop_map(|(p, n)| Mut::Duplicate(p, n)),
        4 => (any::<u8>(), any::<u8>()).prop_map(|(n, w)| Mut::ReplaceNumber(n, w)),
        8 => (any::<u8>(), any::<u16>(), any::<u8>(), any::<bool>()).prop_map(|(nth, at, ch, insert)| Mut::MapChar { nth, at, ch, insert }),
    ]
    .boxed()
}

// --- loose documents: wrong types, extreme numbers, mismatched lengths, nesting -----------

/// A JSON object given as already rendered (key, value) pairs; keys may repeat.
#[derive(Clone, Debug, Hash, Serialize, Deserialize)]
pub struct Loose {
    pub pairs: Vec<(String, String)>,
    pub header: Option<String>,
}

impl Loose {
    pub fn to_json(&self) -> String {
        let body = crate::refimpl::v3::json_object(&self.pairs, false);
        match &self.header {
            Some(h) => format!("{h}{body}"),
            None => body,
        }
    }
}

fn wild_value() -> BoxedStrategy<i64> {
    prop_oneof![
        6 => -3i64..4,
        3 => -300i64..300,
        2 => proptest::sample::select(vec![
            (1i64 << 31) - 1, 1 << 31, -(1i64 << 31), (1i64 << 32) - 1, -((1i64 << 32) - 1), 1 << 32, -(1i64 << 32),
            (1i64 << 62) - 1, -((1i64 << 62) - 1), 1 << 61, -(1i64 << 61), 65535, -65536,
        ]),
    ]
    .boxed()
}

/// Mappings with arbitrary deltas; `valid_ids` keeps source/name deltas at 0 so that the
/// string decodes whenever at least one source and one name are declared.
fn wild_mappings(valid_ids: bool) -> BoxedStrategy<String> {
    let seg = (prop_oneof![3 => Just(1usize), 4 => Just(4), 4 => Just(5), 1 => 0usize..8], vec(wild_value(), 8)).prop_map(
        move |(n, vals)| {
            let mut f: Vec<i64> = vals.into_iter().take(n).collect();
            if valid_ids {
                if f.len() > 1 {
                    f[1] = 0;
                }
                if f.len() > 4 {
                    f[4] = 0;
                }
            }
            rv::write_all(&f)
        },
    );
    vec(vec(seg, 0..6).prop_map(|s| s.join(",")), 0..6)
        .prop_map(|l| l.join(";"))
        .boxed()
}

fn wild_range_mappings() -> BoxedStrategy<String> {
    prop_oneof![
        4 => vec("[A-Za-z0-9+/]{0,4}", 0..8).prop_map(|l| l.join(";")),
        1 => "[A-Za-z0-9+/;!= ]{0,30}".prop_map(|s| s),
        1 => Just("/".repeat(300)),
    ]
    .boxed()
}

fn jnum() -> BoxedStrategy<String> {
    prop_oneof![
        4 => (0u32..6).prop_map(|v| v.to_string()),
        3 => proptest::sample::select(EDGE_NUMS).prop_map(|s| s.to_string()),
    ]
    .boxed()
}

fn jany(depth: u32) -> BoxedStrategy<String> {
    let leaf = prop_oneof![
        Just("null".to_string()),
        Just("true".to_string()),
        jnum(),
        pool_string(SRC_POOL).prop_map(|s| json_str(&s, false)),
        Just("[]".to_string()),
        Just("{}".to_string()),
    ];
    if depth == 0 {
        leaf.boxed()
    } else {
        prop_oneof![
            4 => leaf,
            1 => vec(jany(depth - 1), 0..4).prop_map(json_array),
            1 => vec(jany(depth - 1), 0..3).prop_map(|v| format!("{{{}}}", v.iter().enumerate().map(|(i, x)| format!("\"k{i}\":{x}")).collect::<Vec<_>>().join(","))),
        ]
        .boxed()
    }
}

fn str_array(pool: &'static [&'static str], max: usize, nulls: bool, junk: bool) -> BoxedStrategy<String> {
    let item = if junk {
        prop_oneof![6 => pool_string(pool).prop_map(|s| json_str(&s, false)), 1 => Just("null".to_string()), 2 => jany(1)].boxed()
    } else if nulls {
        prop_oneof![6 => pool_string(pool).prop_map(|s| json_str(&s, false)), 1 => Just("null".to_string())].boxed()
    } else {
        pool_string(pool).prop_map(|s| json_str(&s, false)).boxed()
    };
    vec(item, 0..=max).prop_map(json_array).boxed()
}

fn fb_sources_loose() -> BoxedStrategy<String> {
    let fm = (
        prop_oneof![4 => str_array(NAME_POOL, 3, false, false), 1 => jany(1)],
        prop_oneof![
            3 => fbmap_strategy().prop_map(|m| m.mappings),
            3 => wild_mappings(false),
            1 => Just("gggggggggggggggB".to_string()),
            1 => Just("!".to_string()),
        ],
        any::<u8>(),
    )
        .prop_map(|(names, mappings, k)| match k % 8 {
            0 => format!("{{\"names\":{names}}}"),
            1 => format!("{{\"mappings\":{}}}", json_str(&mappings, false)),
            _ => format!("{{\"names\":{names},\"mappings\":{}}}", json_str(&mappings, false)),
        });
    let entry = prop_oneof![
        2 => Just("null".to_string()),
        1 => Just("[]".to_string()),
        5 => vec(fm, 1..3).prop_map(json_array),
        1 => jany(1),
    ];
    vec(entry, 0..6).prop_map(json_array).boxed()
}

fn debug_id_loose() -> BoxedStrategy<String> {
    prop_oneof![
        3 => proptest::sample::select(DEBUG_IDS).prop_map(|s| json_str(s, false)),
        2 => proptest::sample::select(vec!["00000000-0", "ffffffff-0", "00000001-1", "0000000a-a", "", "x", "00000000-0000-0000-0000-00000000000", "dfb8e43af2423d73a453aeb6a777ef75-0"]).prop_map(|s| json_str(s, false)),
        1 => jany(0),
    ]
    .boxed()
}

fn regular_pairs(depth: u32) -> BoxedStrategy<Vec<(String, String)>> {
    let _ = depth;
    let opt = |k: &'static str, s: BoxedStrategy<String>, w_absent: u32| -> BoxedStrategy<Vec<(String, String)>> {
        prop_oneof![
            w_absent => Just(vec![]),
            6 => s.clone().prop_map(move |v| vec![(k.to_string(), v)]),
            1 => (s.clone(), s).prop_map(move |(a, b)| vec![(k.to_string(), a), (k.to_string(), b)]),
        ]
        .boxed()
    };
    let typed_or_junk = |good: BoxedStrategy<String>| -> BoxedStrategy<String> { prop_oneof![8 => good, 1 => jany(1)].boxed() };
    (
        (
            opt("version", typed_or_junk(jnum()), 2),
            opt("file", typed_or_junk(pool_string(FILE_POOL).prop_map(|s| json_str(&s, false)).boxed()), 3),
            opt("sourceRoot", typed_or_junk(pool_string(ROOT_POOL).prop_map(|s| json_str(&s, false)).boxed()), 3),
            opt("sources", typed_or_junk(str_array(SRC_POOL, 4, true, false)), 1),
            opt("sourcesContent", typed_or_junk(str_array(CONTENT_POOL, 6, true, false)), 3),
            opt("names", typed_or_junk(str_array(NAME_POOL, 4, true, true)), 1),
        ),
        (
            opt("mappings", typed_or_junk(prop_oneof![3 => wild_mappings(true), 1 => wild_mappings(false)].prop_map(|s| json_str(&s, false)).boxed()), 1),
            opt("rangeMappings", typed_or_junk(wild_range_mappings().prop_map(|s| json_str(&s, false)).boxed()), 4),
            opt("ignoreList", typed_or_junk(vec(jnum(), 0..4).prop_map(json_array).boxed()), 4),
            opt("debug_id", debug_id_loose(), 5),
            opt("debugId", debug_id_loose(), 6),
            opt("x_facebook_sources", fb_sources_loose(), 5),
            opt("x_facebook_offsets", typed_or_junk(vec(prop_oneof![jnum(), Just("null".to_string())], 0..4).prop_map(json_array).boxed()), 8),
            opt("x_metro_module_paths", typed_or_junk(str_array(SRC_POOL, 3, false, false)), 8),
        ),
        any::<u64>(),
    )
        .prop_map(|((a, b, c, d, e, f), (g, h, i, j, k, l, m, n), shuffle)| {
            let mut pairs: Vec<(String, String)> = [a, b, c, d, e, f, g, h, i, j, k, l, m, n].concat();
            let len = pairs.len();
            let mut s = shuffle;
            for x in (1..len).rev() {
                s = s.wrapping_mul(6364136223846793005).wrapping_add(1442695040888963407);
                pairs.swap(x, (s >> 33) as usize % (x + 1));
            }
            pairs
        })
        .boxed()
}

fn section_strategy(depth: u32) -> BoxedStrategy<String> {
    let map: BoxedStrategy<Option<String>> = prop_oneof![
        1 => Just(None),
        6 => loose_pairs(depth).prop_map(|p| Some(crate::refimpl::v3::json_object(&p, false))),
        1 => jany(1).prop_map(Some),
    ]
    .boxed();
    (
        prop_oneof![
            8 => (jnum(), jnum()).prop_map(|(l, c)| format!("{{\"line\":{l},\"column\":{c}}}")),
            1 => jnum().prop_map(|l| format!("{{\"line\":{l}}}")),
            1 => jany(1),
        ],
        prop_oneof![2 => Just(None), 1 => pool_string(SRC_POOL).prop_map(|s| Some(json_str(&s, false))), 1 => jany(0).prop_map(Some)],
        map,
        any::<u8>(),
    )
        .prop_map(|(off, url, map, k)| {
            let mut pairs = vec![];
            if k % 16 != 0 {
                pairs.push(("offset".to_string(), off));
            }
            if let Some(u) = url {
                pairs.push(("url".to_string(), u));
            }
            if let Some(m) = map {
                pairs.push(("map".to_string(), m));
            }
            crate::refimpl::v3::json_object(&pairs, false)
        })
        .boxed()
}

fn loose_pairs(depth: u32) -> BoxedStrategy<Vec<(String, String)>> {
    if depth == 0 {
        return regular_pairs(0);
    }
    prop_oneof![
        3 => regular_pairs(depth),
        2 => (regular_pairs(depth), vec(section_strategy(depth - 1), 0..4), any::<bool>()).prop_map(|(mut p, secs, keep)| {
            if !keep {
                p.retain(|(k, _)| k == "version" || k == "file");
            }
            p.push(("sections".to_string(), json_array(secs)));
            p
        }),
    ]
    .boxed()
}

fn deep_sections(n: usize) -> String {
    let mut s = String::from("{\"version\":3,\"sources\":[\"a\"],\"mappings\":\"AAAA\"}");
    for i in 0..n {
        s = format!("{{\"version\":3,\"sections\":[{{\"offset\":{{\"line\":{},\"column\":{}}},\"map\":{s}}}]}}", i % 3, i % 5);
    }
    s
}

pub fn loose_strategy() -> BoxedStrategy<Loose> {
    (
        loose_pairs(2),
        prop_oneof![6 => Just(None), 1 => Just(Some(")]}'\n".to_string())), 1 => Just(Some(")]}\r".to_string()))],
    )
        .prop_map(|(pairs, header)| Loose { pairs, header })
        .boxed()
}

fn structured(t: Tier) -> BoxedStrategy<Case> {
    let p = MMParams { ranges: true, ..MMParams::regular(t) };
    prop_oneof![
        4 => loose_strategy().prop_map(Base::Loose),
        2 => doc_strategy(t, true).prop_map(Base::Doc),
        // valid documents with wild (extreme / negative-sum) mappings
        2 => (doc_strategy(t, true), wild_mappings(true), proptest::option::of(wild_range_mappings())).prop_map(|(mut d, m, r)| {
            d.mappings_override = Some(m);
            if d.sources.val().map(|v| v.is_empty()).unwrap_or(true) {
                d.sources = K::Val(vec![Some("a.js".into())]);
            }
            if d.names.val().map(|v| v.is_empty()).unwrap_or(true) {
                d.names = K::Val(vec![DName::Str("n".into())]);
            }
            let mut l = Loose { pairs: d.pairs(), header: None };
            if let Some(r) = r {
                l.pairs.push(("rangeMappings".into(), json_str(&r, false)));
            }
            Base::Loose(l)
        }),
        1 => mm_strategy(p).prop_map(|m| Base::Any(MAny::Regular(m))),
        1 => hermes_strategy(p).prop_map(|h| Base::Any(MAny::Hermes(h))),
        1 => index_strategy(MMParams { max_tokens: 12, ..p }, 2).prop_map(|i| Base::Any(MAny::Index(i))),
        // valid index maps whose section offsets sit at the edges of u32 (flatten / lookup arithmetic)
        2 => (index_strategy(MMParams { max_tokens: 10, big_lines: false, ..p }, 1), vec((any::<u16>(), proptest::sample::select(EDGE_U32), proptest::sample::select(EDGE_U32), any::<bool>()), 1..3))
            .prop_map(|(mut i, edits)| {
                i.via_api = false;
                for (sel, l, c, line_only) in edits {
                    if !i.sections.is_empty() {
                        let k = idx16(sel, i.sections.len());
                        i.sections[k].off = if line_only { (l, i.sections[k].off.1) } else { (l, c) };
                    }
                }
                Base::Any(MAny::Index(i))
            }),
        // valid range-mapping documents with long lines (dozens to hundreds of segments per line,
        // range bits at and around the multiples of 8, 16, 32 and 64)
        1 => (vec((1usize..4, prop_oneof![3 => 10usize..80, 1 => proptest::sample::select(vec![63usize, 64, 65, 66, 127, 128, 129, 130, 192, 193, 256, 257])], any::<u64>()), 1..4), any::<bool>())
            .prop_map(|(lines, pad)| {
                let mut doc_lines: Vec<Vec<crate::refimpl::v3::SegAbs>> = vec![];
                let mut ranges: Vec<Vec<bool>> = vec![];
                for (gap, n, bits) in lines {
                    for _ in 1..gap {
                        doc_lines.push(vec![]);
                        ranges.push(vec![]);
                    }
                    doc_lines.push((0..n).map(|k| Some((k as u32 * 2, Some(crate::refimpl::v3::RefSrc { id: 0, line: k as u32, col: 0, name: None })))).collect());
                    // the last one or two segments are ranges, plus a sprinkle chosen by `bits`
                    ranges.push((0..n).map(|k| k + 1 == n || (k + 2 == n && bits & 1 == 1) || (bits >> (k % 60)) & 0xf == 0xf).collect());
                }
                let d = DocModel {
                    lines: doc_lines,
                    range_lines: Some(ranges),
                    range_pad: u8::from(pad),
                    version: K::Val(3),
                    sources: K::Val(vec![Some("a.js".into())]),
                    names: K::Val(vec![]),
                    contents: K::Absent,
                    root: K::Absent,
                    file: K::Absent,
                    ignore: K::Absent,
                    debug_id: K::Absent,
                    debug_id_new: K::Absent,
                    fb_sources: None,
                    style: JsonStyle::default(),
                    unknown_keys: false,
                    mappings_override: None,
                };
                Base::Doc(d)
            }),
        1 => (1usize..140).prop_map(|n| Base::Bytes(deep_sections(n).into_bytes())),
    ]
    .prop_map(|base| Case { base, muts: vec![] })
    .boxed()
}

fn mutated(t: Tier) -> BoxedStrategy<Case> {
    let p = MMParams { ranges: true, max_tokens: 20, ..MMParams::regular(t) };
    (
        prop_oneof![
            5 => any::<u16>().prop_map(Base::Corpus),
            2 => doc_strategy(Tier::Quick, true).prop_map(Base::Doc),
            1 => hermes_strategy(p).prop_map(|h| Base::Any(MAny::Hermes(h))),
            1 => index_strategy(MMParams { max_tokens: 8, ..p }, 1).prop_map(|i| Base::Any(MAny::Index(i))),
            1 => loose_strategy().prop_map(Base::Loose),
        ],
        vec(mut_strategy(), 1..6),
    )
        .prop_map(|(base, muts)| Case { base, muts })
        .boxed()
}

/// Documents behind a junk header whose line terminator falls on, just before or just behind a multiple of the
/// reader's 8 KiB buffer (and short headers), optionally mutated afterwards.
fn long_headers(_t: Tier) -> BoxedStrategy<Case> {
    let len = prop_oneof![
        6 => (1u32..5, 0u32..8).prop_map(|(k, d)| k * 8192 + d - 4),
        1 => 1u32..40,
        1 => 8000u32..8400,
    ];
    (
        prop_oneof![
            3 => doc_strategy(Tier::Quick, true).prop_map(Base::Doc),
            1 => Just(Base::Bytes(vec![])),
            1 => Just(Base::Bytes(b"\n{}".to_vec())),
            1 => loose_strategy().prop_map(Base::Loose),
        ],
        len,
        any::<u8>(),
        0u8..4,
        vec(mut_strategy(), 0..2),
    )
        .prop_map(|(base, len, start, ending, mut muts)| {
            muts.insert(0, Mut::JunkHeader { len, start, ending });
            Case { base, muts }
        })
        .boxed()
}

fn arbitrary_bytes(_t: Tier) -> BoxedStrategy<Case> {
    prop_oneof![
        2 => vec(any::<u8>(), 0..64).prop_map(Base::Bytes),
        3 => vec(proptest::sample::select(DICT), 0..24).prop_map(|v| Base::Bytes(v.concat().into_bytes())),
        1 => "[\\[\\]{}\":,0-9a-zA-Z;\\\\ \n\r)']{0,80}".prop_map(|s| Base::Bytes(s.into_bytes())),
    ]
    .prop_map(|base| Case { base, muts: vec![] })
    .boxed()
}

fn check(c: &Case, obs: &mut Obs) -> Verdict {
    let bytes = case_bytes(c);
    let mut stages = vec![];
    let r = battery(&bytes, &mut stages);
    for s in &stages {
        obs.class(s);
    }
    let decoded = stages.iter().any(|s| s.starts_with("decoded:"));
    let semantic_err = stages.iter().any(|s| s.starts_with("err:") && *s != "err:json");
    if decoded || semantic_err {
        obs.nontrivial();
    }
    match r {
        Ok(BatteryEnd::Ok) => Verdict::Pass,
        Ok(BatteryEnd::Known(k, w)) => {
            obs.excluded_known += 1;
            Verdict::Known(k, w)
        }
        Err(e) => Verdict::Fail(format!("{e} [input {} bytes: {}]", bytes.len(), String::from_utf8_lossy(&bytes[..bytes.len().min(600)]))),
    }
}

/// Replays every committed corpus file (repository fixtures, generated valid documents and
/// inputs kept from libFuzzer campaigns) through the battery.
fn run_corpus(ctx: &mut Ctx) {
    let files = corpus_files();
    let mut n = 0u64;
    let mut nt = 0u64;
    for (k, (name, bytes)) in files.iter().enumerate() {
        crate::engine::heartbeat();
        let mut stages = vec![];
        let c = Case { base: Base::Bytes(bytes.clone()), muts: vec![] };
        let _ = k;
        match battery(bytes, &mut stages) {
            Ok(BatteryEnd::Ok) => {}
            Ok(BatteryEnd::Known(kid, w)) => {
                if !ctx.settle("corpus", &c, Verdict::Known(kid, w)) {
                    return;
                }
            }
            Err(e) => {
                ctx.fail("corpus", &c, format!("corpus file {name}: {e}"));
                return;
            }
        }
        n += 1;
        if stages.iter().any(|s| s.starts_with("decoded:") || (s.starts_with("err:") && *s != "err:json")) {
            nt += 1;
        }
        for s in stages {
            ctx.class_add(&format!("corpus/{s}"), 1);
        }
    }
    ctx.bulk("corpus", n, nt);
}

pub fn subs() -> Vec<Sub> {
    let mut v = vec![
        custom_sub::<Case>("corpus", run_corpus, check),
        gen_sub("structured", structured, |t| t.pick(6_000, 300_000), check),
        gen_sub("mutated", mutated, |t| t.pick(6_000, 300_000), check),
        gen_sub("arbitrary", arbitrary_bytes, |t| t.pick(4_000, 200_000), check),
        gen_sub("long_headers", long_headers, |t| t.pick(1_500, 40_000), check),
    ];
    v.push(super::fuzzrun::fuzz_sub::<Case>("fuzz", "c05", check, |b| Case { base: Base::Bytes(b), muts: vec![] }));
    v
}

pub const DEF: PropertyDef = PropertyDef {
    id: "C05",
    rule: "corpus: committed fixtures/valid documents/kept fuzz inputs. structured: loose JSON documents (wrong types, repeated/missing keys, \
           extreme numbers, mismatched array lengths, nested and 1..139-deep sections, malformed Hermes payloads, wild VLQ deltas up to 62 bits \
           with negative running sums, wild rangeMappings) and valid models of all kinds. mutated: 1..5 byte-level mutations (bit flips, \
           dictionary insertions, deletions, truncation, duplication, number replacement) of corpus files and generated documents. arbitrary: \
           random bytes / dictionary soup. long_headers: documents behind a junk header line whose terminator (\\n, \\r\\n, bare \\r, none) falls within 4 bytes of a multiple of the reader's 8 KiB buffer. thorough: coverage-guided libFuzzer campaign with the same battery in the target. \
           Non-trivial = the input decodes to a map or is rejected by a semantic rule (not a JSON syntax error)",
    assumptions: &[
        "allocation bound: bytes requested during decode <= 256 x input length + 64 KiB (counting allocator, deterministic)",
        "hangs are caught by a watchdog and reported as inconclusive (exit 2), never as a violation",
        "serialisation is exercised only while the greatest generated line is below 100000",
        "K3 (third-party debugid: PDB-2.0 id with age 0 prints in a form it cannot parse) is tolerated by its exact signature",
        "adjust_mappings is not part of the statement and is not called here",
    ],
    subs,
};
