//! Abstract models (maps, documents, indexes, Hermes maps), their proptest strategies, the
//! routes that turn a model into a real `sourcemap` object, and the observation function
//! over public accessors that all comparisons go through.

use std::str::FromStr;
use std::sync::Arc;

use proptest::collection::vec;
use proptest::prelude::*;
use proptest::sample::select;
use serde::{Deserialize, Serialize};
use sourcemap::{
    DecodedMap, RawToken, SourceMap, SourceMapBuilder, SourceMapHermes, SourceMapIndex,
    SourceMapSection,
};

use crate::refimpl::v3::{self, json_object, json_opt_str, json_str, RefSrc, SegAbs};

// ---------------------------------------------------------------------------------------
// string pools
// ---------------------------------------------------------------------------------------

pub const SRC_POOL: &[&str] = &[
    "a.js",
    "b.js",
    "src/a.js",
    "src/lib/b.ts",
    "/abs/x.js",
    "/abs/dir/y.js",
    "http://h/x.js",
    "https://h/y.js",
    "http:relative",
    "",
    "ü.js",
    "漢字.ts",
    "😀.js",
    "q\"uote.js",
    "back\\slash.js",
    "new\nline.js",
    "</script>",
    "\u{0}nul",
    "webpack:///./a.js",
    "dir/",
    "../up.js",
    "./here.js",
    "/very/long/ünïcödé/päth/with/many/bytes/ßßßß/モジュール.js",
    // names that only look absolute / only look relative (the rule is: "/", "http:", "https:")
    "http-client.js",
    "https.js",
    "httpd/server.c",
    "http",
    "https:",
    "HTTP://H/upper.js",
    "//net/x.js",
    "file:///f.js",
    "C:/win/x.js",
    "ftp://h/z.js",
    // names that begin with one of the roots of ROOT_POOL
    "r/x.js",
    "src/in-src.js",
    "webpack:///w.js",
];

pub const NAME_POOL: &[&str] = &[
    "a", "b", "foo", "bar", "", "fn\"q", "λ", "𝒳", "\\", "\n", "toString", "__proto__", "0",
    "function", "é", "$x", "_y", "ünïcödé_näme_wïth_mäny_bytes_ßßßß_名前",
];

pub const ROOT_POOL: &[&str] = &["", "r", "r/", "/", "webpack:///", "http://h/base/", "r//", "/abs", "é/", "src", "src/"];

pub const CONTENT_POOL: &[&str] = &[
    "",
    "x",
    "line1\nline2",
    "é\r\n😀",
    "\"json\"\\",
    "function a(){}\n//# sourceMappingURL=x.map\n",
    "\u{0}\u{1f}",
    "last line ends in a lone carriage return\r",
    "\r",
    // long first lines of multi-byte characters (every byte offset falls inside some character)
    "aééééééééééééééééééééééééééééééééééééééééééééééééééééééééééééé\nsecond",
    "漢漢漢漢漢漢漢漢漢漢漢漢漢漢漢漢漢漢漢漢漢漢漢漢漢漢漢漢漢漢漢漢漢漢漢漢漢漢漢漢",
    "ab😀😀😀😀😀😀😀😀😀😀😀😀😀😀😀😀😀😀😀😀😀😀😀😀😀😀😀😀😀😀",
];

pub const FILE_POOL: &[&str] = &["out.js", "", "dist/ö.js", "a\"b", "/abs/out.js"];

pub const DEBUG_IDS: &[&str] = &[
    "00000000-0000-0000-0000-000000000000",
    "dfb8e43a-f242-3d73-a453-aeb6a777ef75",
    "dfb8e43a-f242-3d73-a453-aeb6a777ef75-a",
    "DFB8E43AF2423D73A453AEB6A777EF75",
    "dfb8e43a-f242-3d73-a453-aeb6a777ef75-feedface",
    "3249d99d-0c40-4931-8610-f4e4fb0b6936-1",
];

pub const EDGE_U32: &[u32] = &[
    0,
    1,
    31,
    32,
    1023,
    1024,
    65535,
    65536,
    (1 << 31) - 1,
    1 << 31,
    (1 << 31) + 1,
    u32::MAX - 1,
    u32::MAX,
];

pub fn pool_string(pool: &'static [&'static str]) -> BoxedStrategy<String> {
    prop_oneof![
        6 => select(pool).prop_map(|s| s.to_string()),
        1 => "\\PC{0,5}".prop_map(|s| s),
        1 => "[a-c/]{1,6}".prop_map(|s| s),
    ]
    .boxed()
}

/// A family of up to `n` pairwise distinct strings (for tables with many entries).
pub fn numbered(prefix: &'static str, suffix: &'static str, n: u32) -> BoxedStrategy<String> {
    (0..n).prop_map(move |k| format!("{prefix}{k}{suffix}")).boxed()
}

/// Values at and around the powers of two (2^k - 1, 2^k, 2^k + 1 for k = 0..=32, clamped):
/// where encodings change length, narrow integer types overflow and packed keys collide.
pub fn near_pow2() -> BoxedStrategy<u32> {
    (0u32..=32, -1i64..=1)
        .prop_map(|(k, d)| ((1i64 << k) + d).clamp(0, i64::from(u32::MAX)) as u32)
        .boxed()
}

pub fn small_or_edge() -> BoxedStrategy<u32> {
    prop_oneof![
        5 => 0u32..8,
        3 => 0u32..400,
        1 => 0u32..100_000,
        2 => select(EDGE_U32),
        2 => near_pow2(),
    ]
    .boxed()
}

/// Maps a 16-bit draw monotonically onto `0..len` (shrinks towards 0).
pub fn idx16(draw: u16, len: usize) -> usize {
    ((draw as usize) * len) >> 16
}

// ---------------------------------------------------------------------------------------
// model map
// ---------------------------------------------------------------------------------------

#[derive(Clone, Debug, PartialEq, Eq, Hash, Serialize, Deserialize)]
pub struct MTok {
    pub dl: u32,
    pub dc: u32,
    pub src: Option<RefSrc>,
    pub range: bool,
    /// raw original line/column stored on a *sourceless* token (don't-care values)
    pub junk: (u32, u32),
}

#[derive(Clone, Copy, Debug, PartialEq, Eq, Hash, Serialize, Deserialize)]
pub enum Route {
    /// `SourceMapBuilder` (`add_source`, `add_name`, `add_raw`, …)
    Builder,
    /// `SourceMap::new` + setters
    Raw,
    /// independent encoder → JSON text → `decode_slice`
    Doc,
}

#[derive(Clone, Debug, PartialEq, Eq, Hash, Serialize, Deserialize)]
pub struct MM {
    pub file: Option<String>,
    pub root: Option<String>,
    pub sources: Vec<String>,
    pub contents: Vec<Option<String>>,
    pub names: Vec<String>,
    pub tokens: Vec<MTok>,
    pub ignore: Vec<u32>,
    pub debug_id: Option<String>,
    pub route: Route,
    pub json: JsonStyle,
}

#[derive(Clone, Debug, PartialEq, Eq, Hash, Serialize, Deserialize, Default)]
pub struct JsonStyle {
    pub key_perm: Vec<u8>,
    pub spaced: bool,
    pub ascii_only: bool,
    pub header: Option<String>,
}

#[derive(Clone, Copy, Debug)]
pub struct MMParams {
    pub max_tokens: usize,
    pub ranges: bool,
    pub max_sources: usize,
    pub max_names: usize,
    /// greatest generated line (the encoder spends one byte per line)
    pub big_lines: bool,
    pub distinct_strings: bool,
    pub edge_values: bool,
}

impl MMParams {
    pub fn regular(tier: crate::engine::Tier) -> MMParams {
        MMParams {
            max_tokens: tier.pick(40, 160),
            ranges: false,
            max_sources: 5,
            max_names: 5,
            big_lines: true,
            distinct_strings: false,
            edge_values: true,
        }
    }
}

fn dst_line(big: bool) -> BoxedStrategy<u32> {
    if big {
        prop_oneof![6 => 0u32..4, 3 => 0u32..30, 1 => 0u32..3000].boxed()
    } else {
        prop_oneof![6 => 0u32..4, 3 => 0u32..12].boxed()
    }
}

fn dst_col(edge: bool) -> BoxedStrategy<u32> {
    if edge {
        prop_oneof![5 => 0u32..6, 3 => 0u32..300, 1 => select(EDGE_U32), 1 => near_pow2()].boxed()
    } else {
        prop_oneof![5 => 0u32..6, 3 => 0u32..300].boxed()
    }
}

pub fn tok_strategy(ns: usize, nn: usize, p: MMParams) -> BoxedStrategy<MTok> {
    let val = if p.edge_values {
        small_or_edge()
    } else {
        (0u32..400).boxed()
    };
    let src: BoxedStrategy<Option<RefSrc>> = if ns == 0 {
        Just(None).boxed()
    } else {
        let name: BoxedStrategy<Option<u32>> = if nn == 0 {
            Just(None).boxed()
        } else {
            prop_oneof![1 => Just(None), 2 => (0..nn as u32).prop_map(Some)].boxed()
        };
        prop_oneof![
            1 => Just(None),
            6 => (0..ns as u32, val.clone(), val.clone(), name)
                .prop_map(|(id, line, col, name)| Some(RefSrc { id, line, col, name })),
        ]
        .boxed()
    };
    let range = if p.ranges {
        prop_oneof![3 => Just(false), 2 => Just(true)].boxed()
    } else {
        Just(false).boxed()
    };
    let junk = prop_oneof![3 => Just((0u32, 0u32)), 1 => (0u32..5, 0u32..5)];
    (dst_line(p.big_lines), dst_col(p.edge_values), src, range, junk)
        .prop_map(|(dl, dc, src, range, junk)| MTok {
            dl,
            dc,
            src,
            range,
            junk,
        })
        .boxed()
}

pub fn json_style() -> BoxedStrategy<JsonStyle> {
    (
        vec(any::<u8>(), 16),
        any::<bool>(),
        any::<bool>(),
        prop_oneof![
            6 => Just(None),
            1 => Just(Some(")]}'\n".to_string())),
            1 => Just(Some(")]}' junk ]}\r\n".to_string())),
        ],
    )
        .prop_map(|(key_perm, spaced, ascii_only, header)| JsonStyle {
            key_perm,
            spaced,
            ascii_only,
            header,
        })
        .boxed()
}

fn distinct(mut v: Vec<String>) -> Vec<String> {
    let mut seen = std::collections::HashSet::new();
    v.retain(|s| seen.insert(s.clone()));
    v
}

pub fn debug_id_strategy() -> BoxedStrategy<Option<String>> {
    prop_oneof![
        3 => Just(None),
        2 => select(DEBUG_IDS).prop_map(|s| Some(s.to_string())),
        1 => (any::<u128>(), 0u32..3).prop_map(|(u, age)| {
            let h = format!("{u:032x}");
            let mut s = format!("{}-{}-{}-{}-{}", &h[0..8], &h[8..12], &h[12..16], &h[16..20], &h[20..32]);
            if age > 0 {
                s.push_str(&format!("-{age:x}"));
            }
            Some(s)
        }),
    ]
    .boxed()
}

pub fn mm_strategy(p: MMParams) -> BoxedStrategy<MM> {
    (
        vec(pool_string(SRC_POOL), 0..=p.max_sources),
        vec(pool_string(NAME_POOL), 0..=p.max_names),
    )
        .prop_flat_map(move |(sources, names)| {
            let (sources, names) = if p.distinct_strings {
                (distinct(sources), distinct(names))
            } else {
                (sources, names)
            };
            let ns = sources.len();
            let nn = names.len();
            let ntok = prop_oneof![1 => 0usize..3, 4 => 0usize..=p.max_tokens / 3, 2 => 0usize..=p.max_tokens];
            (
                Just(sources),
                Just(names),
                ntok.prop_flat_map(move |n| vec(tok_strategy(ns, nn, p), n)),
                vec(
                    prop_oneof![1 => Just(None), 1 => pool_string(CONTENT_POOL).prop_map(Some)],
                    0..=ns,
                ),
                vec(0u32..(ns as u32 + 2), 0..3),
                (
                    prop_oneof![1 => Just(None), 1 => pool_string(FILE_POOL).prop_map(Some)],
                    prop_oneof![2 => Just(None), 3 => pool_string(ROOT_POOL).prop_map(Some)],
                    debug_id_strategy(),
                    prop_oneof![Just(Route::Builder), Just(Route::Raw), Just(Route::Doc)],
                    json_style(),
                ),
            )
        })
        .prop_map(
            |(sources, names, tokens, contents, ignore, (file, root, debug_id, route, json))| MM {
                file,
                root,
                sources,
                contents,
                names,
                tokens,
                ignore,
                debug_id,
                route,
                json,
            },
        )
        .boxed()
}

impl MM {
    pub fn strings_distinct(&self) -> bool {
        let s: std::collections::HashSet<_> = self.sources.iter().collect();
        let n: std::collections::HashSet<_> = self.names.iter().collect();
        s.len() == self.sources.len() && n.len() == self.names.len()
    }

    /// The route actually used: the builder interns equal strings, so it can only express
    /// models whose source and name strings are pairwise distinct.
    pub fn effective_route(&self) -> Route {
        match self.route {
            Route::Builder if !self.strings_distinct() => Route::Raw,
            r => r,
        }
    }

    pub fn has_ranges(&self) -> bool {
        self.tokens.iter().any(|t| t.range)
    }

    fn raw_token(t: &MTok) -> RawToken {
        match &t.src {
            Some(s) => RawToken {
                dst_line: t.dl,
                dst_col: t.dc,
                src_line: s.line,
                src_col: s.col,
                src_id: s.id,
                name_id: s.name.unwrap_or(!0),
                is_range: t.range,
            },
            None => RawToken {
                dst_line: t.dl,
                dst_col: t.dc,
                src_line: t.junk.0,
                src_col: t.junk.1,
                src_id: !0,
                name_id: !0,
                is_range: t.range,
            },
        }
    }

    pub fn parsed_debug_id(&self) -> Option<debugid::DebugId> {
        self.debug_id
            .as_deref()
            .and_then(|s| debugid::DebugId::from_str(s).ok())
    }

    pub fn build_builder(&self) -> SourceMap {
        let mut b = SourceMapBuilder::new(self.file.as_deref());
        for s in &self.sources {
            b.add_source(s);
        }
        for n in &self.names {
            b.add_name(n);
        }
        for t in &self.tokens {
            let r = Self::raw_token(t);
            b.add_raw(
                r.dst_line,
                r.dst_col,
                r.src_line,
                r.src_col,
                t.src.as_ref().map(|s| s.id),
                t.src.as_ref().and_then(|s| s.name),
                r.is_range,
            );
        }
        for (i, c) in self.contents.iter().enumerate() {
            if c.is_some() {
                b.set_source_contents(i as u32, c.as_deref());
            }
        }
        for &i in &self.ignore {
            b.add_to_ignore_list(i);
        }
        b.set_source_root(self.root.clone());
        b.set_debug_id(self.parsed_debug_id());
        b.into_sourcemap()
    }

    pub fn build_raw(&self) -> SourceMap {
        let tokens = self.tokens.iter().map(Self::raw_token).collect();
        let contents = if self.contents.is_empty() {
            None
        } else {
            Some(
                self.contents
                    .iter()
                    .map(|c| c.as_deref().map(Arc::<str>::from))
                    .collect(),
            )
        };
        let mut sm = SourceMap::new(
            self.file.as_deref().map(Arc::<str>::from),
            tokens,
            self.names.iter().map(|s| Arc::<str>::from(s.as_str())).collect(),
            self.sources.iter().map(|s| Arc::<str>::from(s.as_str())).collect(),
            contents,
        );
        sm.set_source_root(self.root.clone());
        sm.set_debug_id(self.parsed_debug_id());
        for &i in &self.ignore {
            sm.add_to_ignore_list(i);
        }
        sm
    }

    /// Model → abstract document (tokens grouped by line in a stable order).
    pub fn to_doc(&self) -> DocModel {
        let mut toks: Vec<&MTok> = self.tokens.iter().collect();
        toks.sort_by_key(|t| (t.dl, t.dc));
        let nlines = toks.last().map(|t| t.dl as usize + 1).unwrap_or(0);
        let mut lines: Vec<Vec<SegAbs>> = vec![vec![]; nlines];
        let mut ranges: Vec<Vec<bool>> = vec![vec![]; nlines];
        for t in toks {
            lines[t.dl as usize].push(Some((t.dc, t.src.clone())));
            ranges[t.dl as usize].push(t.range);
        }
        DocModel {
            lines,
            range_lines: if self.has_ranges() { Some(ranges) } else { None },
            range_pad: 0,
            version: K::Val(3),
            sources: K::Val(self.sources.iter().cloned().map(Some).collect()),
            names: K::Val(self.names.iter().cloned().map(DName::Str).collect()),
            contents: if self.contents.iter().any(|c| c.is_some()) {
                K::Val(self.contents.clone())
            } else {
                K::Absent
            },
            root: self.root.clone().map(K::Val).unwrap_or(K::Absent),
            file: self.file.clone().map(K::Val).unwrap_or(K::Absent),
            ignore: if self.ignore.is_empty() {
                K::Absent
            } else {
                K::Val(self.ignore.clone())
            },
            debug_id: self.debug_id.clone().map(K::Val).unwrap_or(K::Absent),
            debug_id_new: K::Absent,
            fb_sources: None,
            style: self.json.clone(),
            unknown_keys: false,
            mappings_override: None,
        }
    }

    pub fn build_doc(&self) -> Result<SourceMap, String> {
        let text = self.to_doc().to_json();
        SourceMap::from_slice(text.as_bytes()).map_err(|e| format!("decode of model document failed: {e} / doc={text}"))
    }

    pub fn build(&self) -> Result<SourceMap, String> {
        match self.effective_route() {
            Route::Builder => Ok(self.build_builder()),
            Route::Raw => Ok(self.build_raw()),
            Route::Doc => self.build_doc(),
        }
    }

    /// What the public accessors must report for this model (token ties in canonical order).
    pub fn expected_obs(&self) -> ObsMap {
        let mut tokens: Vec<ObsTok> = self
            .tokens
            .iter()
            .map(|t| ObsTok {
                dl: t.dl,
                dc: t.dc,
                src: t.src.as_ref().map(|s| ObsSrc {
                    source: v3::join_source(self.root.as_deref(), &self.sources[s.id as usize]),
                    line: s.line,
                    col: s.col,
                    name: s.name.map(|n| self.names[n as usize].clone()),
                }),
                range: t.range,
            })
            .collect();
        tokens.sort();
        let mut ignore = self.ignore.clone();
        ignore.sort();
        ignore.dedup();
        let mut contents = self.contents.clone();
        contents.resize(self.sources.len(), None);
        ObsMap {
            tokens,
            sources: self
                .sources
                .iter()
                .map(|s| v3::join_source(self.root.as_deref(), s))
                .collect(),
            names: self.names.clone(),
            contents,
            file: self.file.clone(),
            root: self.root.clone(),
            debug_id: self.parsed_debug_id().map(|d| d.to_string()),
            ignore,
        }
    }
}

// ---------------------------------------------------------------------------------------
// observations through the public API
// ---------------------------------------------------------------------------------------

#[derive(Clone, Debug, PartialEq, Eq, Hash, PartialOrd, Ord, Serialize, Deserialize)]
pub struct ObsSrc {
    pub source: String,
    pub line: u32,
    pub col: u32,
    pub name: Option<String>,
}

#[derive(Clone, Debug, PartialEq, Eq, Hash, PartialOrd, Ord, Serialize, Deserialize)]
pub struct ObsTok {
    pub dl: u32,
    pub dc: u32,
    pub src: Option<ObsSrc>,
    pub range: bool,
}

#[derive(Clone, Debug, PartialEq, Eq, Serialize, Deserialize)]
pub struct ObsMap {
    pub tokens: Vec<ObsTok>,
    pub sources: Vec<String>,
    pub names: Vec<String>,
    pub contents: Vec<Option<String>>,
    pub file: Option<String>,
    pub root: Option<String>,
    pub debug_id: Option<String>,
    pub ignore: Vec<u32>,
}

pub fn obs_token(t: &sourcemap::Token<'_>) -> ObsTok {
    ObsTok {
        dl: t.get_dst_line(),
        dc: t.get_dst_col(),
        src: if t.has_source() {
            Some(ObsSrc {
                source: t.get_source().unwrap_or("<unresolved source>").to_string(),
                line: t.get_src_line(),
                col: t.get_src_col(),
                name: if t.get_name_id() != !0 {
                    Some(t.get_name().unwrap_or("<unresolved name>").to_string())
                } else {
                    None
                },
            })
        } else {
            None
        },
        range: t.is_range(),
    }
}

/// Observation of a regular map, tokens in iteration order.
pub fn obs_map(sm: &SourceMap) -> ObsMap {
    ObsMap {
        tokens: sm.tokens().map(|t| obs_token(&t)).collect(),
        sources: sm.sources().map(str::to_string).collect(),
        names: sm.names().map(str::to_string).collect(),
        contents: sm
            .source_contents()
            .map(|c| c.map(str::to_string))
            .collect(),
        file: sm.get_file().map(str::to_string),
        root: sm.get_source_root().map(str::to_string),
        debug_id: sm.get_debug_id().map(|d| d.to_string()),
        ignore: sm.ignore_list().copied().collect(),
    }
}

impl ObsMap {
    /// Same observation with token ties put into a canonical order (for comparisons where
    /// the order among equal generated positions is not promised).
    pub fn canonical(mut self) -> ObsMap {
        self.tokens.sort();
        self
    }

    pub fn positions_sorted(&self) -> bool {
        self.tokens
            .windows(2)
            .all(|w| (w[0].dl, w[0].dc) <= (w[1].dl, w[1].dc))
    }
}

/// Removes exact consecutive duplicates (observational equality).
pub fn dedup_consecutive(tokens: &[ObsTok]) -> Vec<ObsTok> {
    let mut out: Vec<ObsTok> = Vec::with_capacity(tokens.len());
    for t in tokens {
        if out.last() != Some(t) {
            out.push(t.clone());
        }
    }
    out
}

#[derive(Clone, Debug, PartialEq, Eq, Serialize, Deserialize)]
pub enum ObsAny {
    Regular(ObsMap),
    Hermes {
        map: ObsMap,
        scopes: Vec<Option<String>>,
        fb_sources: serde_json::Value,
    },
    Index {
        file: Option<String>,
        sections: Vec<((u32, u32), Option<String>, Option<Box<ObsAny>>)>,
    },
}

pub fn obs_hermes(h: &SourceMapHermes) -> ObsAny {
    let scopes = h
        .tokens()
        .map(|t| h.get_scope_for_token(t).map(str::to_string))
        .collect();
    // the parsed x_facebook_sources value is only observable through serialisation
    let mut out = vec![];
    let fb = if h.to_writer(&mut out).is_ok() {
        serde_json::from_slice::<serde_json::Value>(&out)
            .map(|v| v["x_facebook_sources"].clone())
            .unwrap_or(serde_json::Value::Null)
    } else {
        serde_json::Value::Null
    };
    ObsAny::Hermes {
        map: obs_map(h),
        scopes,
        fb_sources: fb,
    }
}

pub fn obs_any(m: &DecodedMap) -> ObsAny {
    match m {
        DecodedMap::Regular(sm) => ObsAny::Regular(obs_map(sm)),
        DecodedMap::Hermes(h) => obs_hermes(h),
        DecodedMap::Index(i) => obs_index(i),
    }
}

pub fn obs_index(i: &SourceMapIndex) -> ObsAny {
    ObsAny::Index {
        file: i.get_file().map(str::to_string),
        sections: i
            .sections()
            .map(|s| {
                (
                    s.get_offset(),
                    s.get_url().map(str::to_string),
                    s.get_sourcemap().map(|m| Box::new(obs_any(m))),
                )
            })
            .collect(),
    }
}

impl ObsAny {
    /// Applies the statement's duplicate normalisation to every token list.
    pub fn dedup(self) -> ObsAny {
        match self {
            ObsAny::Regular(mut m) => {
                m.tokens = dedup_consecutive(&m.tokens);
                ObsAny::Regular(m)
            }
            ObsAny::Hermes {
                mut map,
                scopes,
                fb_sources,
            } => {
                // drop the scopes of removed duplicates
                let mut keep = vec![];
                let mut out: Vec<ObsTok> = vec![];
                for (i, t) in map.tokens.iter().enumerate() {
                    if out.last() != Some(t) {
                        out.push(t.clone());
                        keep.push(i);
                    }
                }
                map.tokens = out;
                let scopes = keep.into_iter().map(|i| scopes[i].clone()).collect();
                ObsAny::Hermes {
                    map,
                    scopes,
                    fb_sources,
                }
            }
            ObsAny::Index { file, sections } => ObsAny::Index {
                file,
                sections: sections
                    .into_iter()
                    .map(|(o, u, m)| (o, u, m.map(|m| Box::new(m.dedup()))))
                    .collect(),
            },
        }
    }
}

// ---------------------------------------------------------------------------------------
// abstract documents (independent encoder side)
// ---------------------------------------------------------------------------------------

/// A JSON key that may be absent, `null`, or carry a value.
#[derive(Clone, Debug, PartialEq, Eq, Hash, Serialize, Deserialize)]
pub enum K<T> {
    Absent,
    Null,
    Val(T),
}

impl<T> K<T> {
    pub fn val(&self) -> Option<&T> {
        match self {
            K::Val(v) => Some(v),
            _ => None,
        }
    }
    pub fn present(&self) -> bool {
        !matches!(self, K::Absent)
    }
}

#[derive(Clone, Debug, PartialEq, Eq, Hash, Serialize, Deserialize)]
pub enum DName {
    Str(String),
    Int(i64),
}

impl DName {
    pub fn text(&self) -> String {
        match self {
            DName::Str(s) => s.clone(),
            DName::Int(i) => i.to_string(),
        }
    }
}

#[derive(Clone, Debug, PartialEq, Eq, Hash, Serialize, Deserialize)]
pub struct FbMap {
    pub names: Vec<String>,
    pub mappings: String,
}

#[derive(Clone, Debug, PartialEq, Eq, Hash, Serialize, Deserialize)]
pub struct DocModel {
    pub lines: Vec<Vec<SegAbs>>,
    /// range bit per *segment index* (empty segments included)
    pub range_lines: Option<Vec<Vec<bool>>>,
    pub range_pad: u8,
    pub version: K<u32>,
    pub sources: K<Vec<Option<String>>>,
    pub names: K<Vec<DName>>,
    pub contents: K<Vec<Option<String>>>,
    pub root: K<String>,
    pub file: K<String>,
    pub ignore: K<Vec<u32>>,
    pub debug_id: K<String>,
    pub debug_id_new: K<String>,
    /// `x_facebook_sources` (its presence makes the document a Hermes map)
    pub fb_sources: Option<Vec<Option<Vec<FbMap>>>>,
    pub style: JsonStyle,
    pub unknown_keys: bool,
    /// write this text as `mappings` instead of encoding `lines` (fault injection)
    #[serde(default)]
    pub mappings_override: Option<String>,
}

fn k_render<T>(k: &K<T>, f: impl Fn(&T) -> String) -> Option<String> {
    match k {
        K::Absent => None,
        K::Null => Some("null".into()),
        K::Val(v) => Some(f(v)),
    }
}

pub fn json_array(items: impl IntoIterator<Item = String>) -> String {
    let v: Vec<String> = items.into_iter().collect();
    format!("[{}]", v.join(","))
}

pub fn fb_sources_json(fb: &[Option<Vec<FbMap>>], ascii: bool) -> String {
    json_array(fb.iter().map(|e| match e {
        None => "null".to_string(),
        Some(list) => json_array(list.iter().map(|m| {
            format!(
                "{{\"names\":{},\"mappings\":{}}}",
                json_array(m.names.iter().map(|n| json_str(n, ascii))),
                json_str(&m.mappings, false)
            )
        })),
    }))
}

impl DocModel {
    pub fn mappings(&self) -> String {
        v3::encode_mappings(&self.lines)
    }

    /// Key/value pairs of the object in generated key order.
    pub fn pairs(&self) -> Vec<(String, String)> {
        let a = self.style.ascii_only;
        let mut pairs: Vec<(String, String)> = vec![];
        let mut push = |k: &str, v: Option<String>| {
            if let Some(v) = v {
                pairs.push((k.to_string(), v));
            }
        };
        push("version", k_render(&self.version, |v| v.to_string()));
        push("file", k_render(&self.file, |s| json_str(s, a)));
        push("sourceRoot", k_render(&self.root, |s| json_str(s, a)));
        push(
            "sources",
            k_render(&self.sources, |v| {
                json_array(v.iter().map(|s| json_opt_str(s, a)))
            }),
        );
        push(
            "sourcesContent",
            k_render(&self.contents, |v| {
                json_array(v.iter().map(|s| json_opt_str(s, a)))
            }),
        );
        push(
            "names",
            k_render(&self.names, |v| {
                json_array(v.iter().map(|n| match n {
                    DName::Str(s) => json_str(s, a),
                    DName::Int(i) => i.to_string(),
                }))
            }),
        );
        push(
            "mappings",
            Some(json_str(
                self.mappings_override.as_deref().unwrap_or(&self.mappings()),
                false,
            )),
        );
        if let Some(r) = &self.range_lines {
            push(
                "rangeMappings",
                Some(json_str(
                    &v3::encode_range_mappings(r, self.range_pad as usize),
                    false,
                )),
            );
        }
        push(
            "ignoreList",
            k_render(&self.ignore, |v| json_array(v.iter().map(|i| i.to_string()))),
        );
        push("debug_id", k_render(&self.debug_id, |s| json_str(s, false)));
        push("debugId", k_render(&self.debug_id_new, |s| json_str(s, false)));
        if let Some(fb) = &self.fb_sources {
            push("x_facebook_sources", Some(fb_sources_json(fb, a)));
        }
        if self.unknown_keys {
            push("x_google_ignoreList", Some("[0]".into()));
            push("x_unknown", Some("{\"a\":[1,{\"b\":null}],\"mappings\":\"zzz\"}".into()));
        }
        // generated key order
        let perm = &self.style.key_perm;
        let mut keyed: Vec<(u8, usize, (String, String))> = pairs
            .into_iter()
            .enumerate()
            .map(|(i, p)| (perm.get(i).copied().unwrap_or(0), i, p))
            .collect();
        keyed.sort_by_key(|(k, i, _)| (*k, *i));
        keyed.into_iter().map(|(_, _, p)| p).collect()
    }

    pub fn to_json_no_header(&self) -> String {
        json_object(&self.pairs(), self.style.spaced)
    }

    pub fn to_json(&self) -> String {
        let body = self.to_json_no_header();
        match &self.style.header {
            Some(h) => format!("{h}{body}"),
            None => body,
        }
    }
}

// ---------------------------------------------------------------------------------------
// index and Hermes models
// ---------------------------------------------------------------------------------------

#[derive(Clone, Debug, PartialEq, Eq, Hash, Serialize, Deserialize)]
pub struct MHermes {
    pub map: MM,
    pub fb: Vec<Option<Vec<FbMap>>>,
}

#[derive(Clone, Debug, PartialEq, Eq, Hash, Serialize, Deserialize)]
pub enum MAny {
    Regular(MM),
    Hermes(MHermes),
    Index(MIndex),
}

#[derive(Clone, Debug, PartialEq, Eq, Hash, Serialize, Deserialize)]
pub struct MSection {
    pub off: (u32, u32),
    pub url: Option<String>,
    pub map: Option<MAny>,
}

#[derive(Clone, Debug, PartialEq, Eq, Hash, Serialize, Deserialize)]
pub struct MIndex {
    pub file: Option<String>,
    pub sections: Vec<MSection>,
    /// build through `SourceMapIndex::new` (true) or through JSON (false)
    pub via_api: bool,
    /// order in which the sections are written to JSON (a permutation key per section)
    pub order: Vec<u8>,
    pub style: JsonStyle,
}

impl MHermes {
    pub fn to_doc(&self) -> DocModel {
        let mut d = self.map.to_doc();
        d.fb_sources = Some(self.fb.clone());
        d
    }
    pub fn to_json(&self) -> String {
        self.to_doc().to_json()
    }
    pub fn build(&self) -> Result<SourceMapHermes, String> {
        let text = self.to_json();
        SourceMapHermes::from_slice(text.as_bytes())
            .map_err(|e| format!("decode of model Hermes document failed: {e} / doc={text}"))
    }
}

impl MAny {
    pub fn to_json(&self) -> String {
        match self {
            MAny::Regular(m) => m.to_doc().to_json(),
            MAny::Hermes(h) => h.to_json(),
            MAny::Index(i) => i.to_json(),
        }
    }
    pub fn to_json_no_header(&self) -> String {
        match self {
            MAny::Regular(m) => m.to_doc().to_json_no_header(),
            MAny::Hermes(h) => h.to_doc().to_json_no_header(),
            MAny::Index(i) => i.to_json_no_header(),
        }
    }
    pub fn build(&self) -> Result<DecodedMap, String> {
        Ok(match self {
            MAny::Regular(m) => DecodedMap::Regular(m.build()?),
            MAny::Hermes(h) => DecodedMap::Hermes(h.build()?),
            MAny::Index(i) => DecodedMap::Index(i.build()?),
        })
    }
    pub fn token_count(&self) -> usize {
        match self {
            MAny::Regular(m) => m.tokens.len(),
            MAny::Hermes(h) => h.map.tokens.len(),
            MAny::Index(i) => i
                .sections
                .iter()
                .map(|s| s.map.as_ref().map(|m| m.token_count()).unwrap_or(0))
                .sum(),
        }
    }
}

impl MIndex {
    pub fn to_json_no_header(&self) -> String {
        let mut secs: Vec<(u8, usize, String)> = self
            .sections
            .iter()
            .enumerate()
            .map(|(i, s)| {
                let mut pairs = vec![(
                    "offset".to_string(),
                    format!("{{\"line\":{},\"column\":{}}}", s.off.0, s.off.1),
                )];
                if let Some(u) = &s.url {
                    pairs.push(("url".into(), json_str(u, false)));
                }
                if let Some(m) = &s.map {
                    pairs.push(("map".into(), m.to_json_no_header()));
                }
                (
                    self.order.get(i).copied().unwrap_or(0),
                    i,
                    json_object(&pairs, false),
                )
            })
            .collect();
        secs.sort_by_key(|(k, i, _)| (*k, *i));
        let mut pairs = vec![("version".to_string(), "3".to_string())];
        if let Some(f) = &self.file {
            pairs.push(("file".into(), json_str(f, self.style.ascii_only)));
        }
        pairs.push((
            "sections".into(),
            json_array(secs.into_iter().map(|(_, _, s)| s)),
        ));
        json_object(&pairs, self.style.spaced)
    }

    pub fn to_json(&self) -> String {
        let body = self.to_json_no_header();
        match &self.style.header {
            Some(h) => format!("{h}{body}"),
            None => body,
        }
    }

    pub fn build(&self) -> Result<SourceMapIndex, String> {
        if self.via_api {
            let mut secs = vec![];
            for s in &self.sections {
                let map = match &s.map {
                    Some(m) => Some(m.build()?),
                    None => None,
                };
                secs.push((s.off, s.url.clone(), map));
            }
            // every other section is created empty and filled in afterwards through the mutators
            // (`get_section_mut`, `set_url`, `set_sourcemap`); the file through `set_file` likewise
            let late = |k: usize| k % 2 == 1;
            let mut idx = SourceMapIndex::new(
                if secs.len() % 2 == 1 { None } else { self.file.clone() },
                secs.iter()
                    .enumerate()
                    .map(|(k, (off, url, map))| if late(k) { SourceMapSection::new(*off, None, None) } else { SourceMapSection::new(*off, url.clone(), map.clone()) })
                    .collect(),
            );
            if secs.len() % 2 == 1 {
                idx.set_file(self.file.as_deref());
            }
            for (k, (_, url, map)) in secs.into_iter().enumerate() {
                if late(k) {
                    let sec = idx.get_section_mut(k as u32).ok_or("get_section_mut returns None for an existing section")?;
                    sec.set_url(url.as_deref());
                    sec.set_sourcemap(map);
                }
            }
            Ok(idx)
        } else {
            let text = self.to_json();
            SourceMapIndex::from_slice(text.as_bytes())
                .map_err(|e| format!("decode of model index document failed: {e} / doc={text}"))
        }
    }
}

/// Metro-style function map strategy: sorted entries `(line ≥ 1, column, name index)`.
pub fn fnmap_entries(nnames: usize) -> BoxedStrategy<Vec<(u32, u32, u32)>> {
    if nnames == 0 {
        return Just(vec![]).boxed();
    }
    vec((1u32..6, 0u32..30, 0..nnames as u32), 0..8)
        .prop_map(|mut v| {
            v.sort();
            v.dedup_by_key(|e| (e.0, e.1));
            v
        })
        .boxed()
}

/// Encodes function-map entries Metro-style: `;` when the line changes is *not* required by
/// the reader — lines are explicit deltas — so `;` positions are a generated choice.
pub fn encode_fnmap(entries: &[(u32, u32, u32)], semis: &[bool], omit: &[bool]) -> String {
    let mut out = String::new();
    let (mut p_col, mut p_name, mut p_line) = (0i64, 0i64, 1i64);
    let mut first_in_group = true;
    for (i, &(line, col, name)) in entries.iter().enumerate() {
        if i > 0 {
            if semis.get(i).copied().unwrap_or(false) {
                out.push(';');
                p_col = 0;
                first_in_group = true;
            } else {
                out.push(',');
            }
        }
        let _ = first_in_group;
        first_in_group = false;
        let dcol = i64::from(col) - p_col;
        // name indices from 2^31 up are written as what they are modulo 2^32 on the signed side: a
        // running index that dips below zero (Metro: `nameIndex += delta; names[nameIndex]`)
        let sname = i64::from(name as i32);
        let dname = sname - p_name;
        let dline = i64::from(line) - p_line;
        p_col = i64::from(col);
        p_name = sname;
        p_line = i64::from(line);
        crate::refimpl::vlq::write(&mut out, dcol);
        let may_omit = omit.get(i).copied().unwrap_or(false);
        if dline != 0 || !may_omit {
            crate::refimpl::vlq::write(&mut out, dname);
            crate::refimpl::vlq::write(&mut out, dline);
        } else if dname != 0 {
            crate::refimpl::vlq::write(&mut out, dname);
        }
    }
    out
}

pub fn fbmap_strategy() -> BoxedStrategy<FbMap> {
    vec(pool_string(NAME_POOL), 0..4)
        .prop_flat_map(|names| {
            let n = names.len();
            (
                Just(names),
                fnmap_entries(n),
                vec(any::<bool>(), 8),
                vec(any::<bool>(), 8),
            )
        })
        .prop_map(|(names, entries, semis, omit)| FbMap {
            mappings: encode_fnmap(&entries, &semis, &omit),
            names,
        })
        .boxed()
}

pub fn hermes_strategy(p: MMParams) -> BoxedStrategy<MHermes> {
    mm_strategy(p)
        .prop_flat_map(|mut map| {
            map.route = Route::Doc;
            let ns = map.sources.len();
            (
                Just(map),
                vec(
                    prop_oneof![
                        1 => Just(None),
                        1 => Just(Some(vec![])),
                        4 => vec(fbmap_strategy(), 1..3).prop_map(Some),
                    ],
                    ns,
                ),
            )
        })
        .prop_map(|(map, fb)| MHermes { map, fb })
        .boxed()
}

fn many_leaf(p: MMParams) -> BoxedStrategy<MAny> {
    prop_oneof![
        4 => mm_strategy(p).prop_map(MAny::Regular),
        1 => hermes_strategy(p).prop_map(MAny::Hermes),
    ]
    .boxed()
}

/// Index model for round-trip purposes (C01/C03/C05): offsets need not leave room for the
/// section contents. C08 has its own generator that keeps tokens below the next offset.
pub fn index_strategy(p: MMParams, depth: u32) -> BoxedStrategy<MIndex> {
    let leaf = many_leaf(p);
    let inner: BoxedStrategy<MAny> = if depth == 0 {
        leaf
    } else {
        prop_oneof![
            5 => leaf,
            1 => index_strategy(p, depth - 1).prop_map(MAny::Index),
        ]
        .boxed()
    };
    let section = (
        (0u32..4, small_or_edge()),
        prop_oneof![2 => Just(None), 1 => pool_string(SRC_POOL).prop_map(Some)],
        prop_oneof![1 => Just(None), 6 => inner.prop_map(Some)],
    );
    (
        vec(section, 0..4),
        prop_oneof![1 => Just(None), 1 => pool_string(FILE_POOL).prop_map(Some)],
        any::<bool>(),
        vec(any::<u8>(), 4),
        json_style(),
    )
        .prop_map(|(secs, file, via_api, order, style)| {
            // strictly increasing offsets
            let mut line = 0u32;
            let sections = secs
                .into_iter()
                .map(|((dl, col), url, map)| {
                    line += dl + 1;
                    MSection {
                        off: (line - 1, col),
                        url,
                        map,
                    }
                })
                .collect();
            MIndex {
                file,
                sections,
                via_api,
                order,
                style,
            }
        })
        .boxed()
}

/// `levels` index maps nested inside one another around `inner` (each level one section at a
/// small offset). serde_json's recursion limit (128) allows about 40 levels of sections.
pub fn nest(inner: MAny, levels: usize, offs: &[(u32, u32)], via_api: bool) -> MIndex {
    let mut cur = inner;
    for k in 0..levels.max(1) {
        let off = offs.get(k % offs.len().max(1)).copied().unwrap_or((0, 0));
        let ix = MIndex {
            file: if k % 7 == 3 { Some(format!("level{k}.js")) } else { None },
            sections: vec![MSection { off, url: None, map: Some(cur) }],
            via_api,
            order: vec![0],
            style: JsonStyle::default(),
        };
        cur = MAny::Index(ix);
    }
    match cur {
        MAny::Index(i) => i,
        _ => unreachable!(),
    }
}

pub fn deep_index_strategy(p: MMParams, max_levels: usize) -> BoxedStrategy<MIndex> {
    (
        mm_strategy(p),
        prop_oneof![2 => 1usize..8, 3 => 8usize..=max_levels],
        vec((0u32..3, 0u32..9), 1..4),
        any::<bool>(),
    )
        .prop_map(|(m, levels, offs, via_api)| nest(MAny::Regular(m), levels, &offs, via_api))
        .boxed()
}
