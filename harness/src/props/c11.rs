//! C11 — VLQ encoding and decoding are exact inverses and match the standard.

use proptest::collection::vec;
use proptest::prelude::*;
use serde::{Deserialize, Serialize};
use serde_json::json;
use sourcemap::vlq::{generate_vlq_segment, parse_vlq_segment};

use crate::engine::{custom_sub, enum_sub, gen_sub, guard, Ctx, Obs, PropertyDef, Sub, Tier, Verdict};
use crate::refimpl::vlq as rv;
use crate::{ensure, ensure_eq};

#[derive(Clone, Debug, Hash, Serialize, Deserialize)]
pub enum Case {
    Values(Vec<i64>),
    Text(String),
}

fn third_party_encode(v: i64) -> String {
    let mut out = vec![];
    vlq::encode(v, &mut out).expect("vec write");
    String::from_utf8(out).expect("ascii")
}

fn check_values(xs: &[i64], obs: &mut Obs, cross: bool) -> Verdict {
    let want = rv::write_all(xs);
    let got = match guard(|| generate_vlq_segment(xs)) {
        Ok(Ok(s)) => s,
        Ok(Err(e)) => return Verdict::Fail(format!("generate_vlq_segment({xs:?}) = Err({e})")),
        Err(p) => return Verdict::Fail(format!("generate_vlq_segment({xs:?}): {p}")),
    };
    ensure_eq!(got, want, "generate_vlq_segment({xs:?}) differs from the reference writer");
    let back = match guard(|| parse_vlq_segment(&got)) {
        Ok(Ok(v)) => v,
        Ok(Err(e)) => return Verdict::Fail(format!("parse(generate({xs:?})) = Err({e})")),
        Err(p) => return Verdict::Fail(format!("parse(generate({xs:?})): {p}")),
    };
    ensure_eq!(back, xs.to_vec(), "parse(generate(xs)) != xs for text {got:?}");
    if cross {
        // reference writer against the third-party vlq crate
        let tp: String = xs.iter().map(|&v| third_party_encode(v)).collect();
        ensure_eq!(tp, want, "reference writer disagrees with the third-party vlq crate on {xs:?}");
    }
    obs.class_if(xs.iter().any(|v| *v < 0), "negative");
    obs.class_if(xs.len() >= 2, "list>=2");
    obs.class_if(got.len() > xs.len(), "multi-digit");
    if xs.len() >= 2 && xs.iter().any(|v| *v < 0) && got.len() > xs.len() {
        obs.nontrivial();
    }
    Verdict::Pass
}

/// Differential check of the decoder on an arbitrary string.
/// Other parts of the crate use the VLQ reader on the same thread: every fourth text is parsed right
/// after a map was decoded (and one was refused) there - the answers must not depend on that.
fn neighbours(t: &str) {
    match t.len() % 8 {
        // right after a successful decode
        0 => {
            let _ = sourcemap::decode_slice(br#"{"version":3,"sources":["a.js"],"names":["n"],"mappings":"AAAA,IAAEA;AACA"}"#);
        }
        // right after a refused one
        4 => {
            let _ = sourcemap::decode_slice(br#"{"version":3,"sources":["a.js"],"names":[],"mappings":"AAAA,IAAg"}"#);
        }
        // after a Hermes map (its function maps go through the same reader)
        6 => {
            let _ = sourcemap::decode_slice(br#"{"version":3,"sources":["a.js"],"names":[],"mappings":"AAAA","x_facebook_sources":[[{"names":["f"],"mappings":"AAA,UC"}]]}"#);
        }
        _ => {}
    }
}

fn check_text(t: &str, obs: &mut Obs) -> Verdict {
    neighbours(t);
    let reference = rv::read(t);
    let got = match guard(|| parse_vlq_segment(t)) {
        Ok(r) => r,
        Err(p) => return Verdict::Fail(format!("parse_vlq_segment({t:?}): {p}")),
    };
    match reference {
        Err(rv::RefErr::Foreign(c)) => {
            obs.class("foreign");
            ensure!(
                got.is_err(),
                "parse_vlq_segment({t:?}) = {:?} although {c:?} is not in the base64 alphabet",
                got
            );
        }
        Err(rv::RefErr::Unterminated) => {
            obs.class("unterminated");
            ensure!(got.is_err(), "parse_vlq_segment({t:?}) = {:?} although the last value is cut off", got);
        }
        Err(rv::RefErr::Empty) => {
            obs.class("empty");
            ensure!(got.is_err(), "parse_vlq_segment({t:?}) = {:?} on empty input", got);
        }
        Err(rv::RefErr::TooLong) => {
            obs.class("14+digits");
            ensure!(got.is_err(), "parse_vlq_segment({t:?}) = {:?} although a value has a 14th digit", got);
        }
        Ok(vals) => {
            let fits = vals.iter().all(|v| v.value.unsigned_abs() < (1u128 << 62));
            if fits {
                let want: Vec<i64> = vals.iter().map(|v| v.value as i64).collect();
                match got {
                    Ok(g) => ensure_eq!(g, want, "parse_vlq_segment({t:?}) differs from the reference reader"),
                    Err(e) => return Verdict::Fail(format!("parse_vlq_segment({t:?}) = Err({e}), reference reads {want:?}")),
                }
                // canonical text: encoding the decoded values returns the text
                if rv::write_all(&want) == t {
                    obs.class("canonical");
                    match guard(|| generate_vlq_segment(&want)) {
                        Ok(Ok(s)) => ensure_eq!(s, t.to_string(), "generate(parse(t)) != t"),
                        other => return Verdict::Fail(format!("generate_vlq_segment({want:?}) = {other:?}")),
                    }
                }
                let run = vals.iter().map(|v| v.digits).max().unwrap_or(0);
                obs.class_if(run >= 12, "run>=12");
                if run >= 2 {
                    obs.nontrivial();
                }
            } else {
                // 13-digit value beyond 62 bits: the statement is silent, crash-freedom only
                obs.class("beyond-62-bits(crash-freedom only)");
            }
        }
    }
    Verdict::Pass
}

fn check(case: &Case, obs: &mut Obs) -> Verdict {
    match case {
        Case::Values(xs) => check_values(xs, obs, xs.iter().all(|v| v.unsigned_abs() < (1 << 62))),
        Case::Text(t) => check_text(t, obs),
    }
}

// --- bulk window of integers -------------------------------------------------------------

fn run_window(ctx: &mut Ctx) {
    let (lo, hi): (i64, i64) = ctx.tier.pick((-(1 << 24), 1 << 24), (-((1i64 << 32) - 1), (1i64 << 32) - 1));
    let threads = ctx.threads.max(1) as i64;
    let total = hi - lo + 1;
    let chunk = (total + threads - 1) / threads;
    let cross_stride: i64 = ctx.tier.pick(1, 64);
    let results: Vec<Result<(u64, u64), (i64, String)>> = std::thread::scope(|s| {
        let hs: Vec<_> = (0..threads)
            .map(|t| {
                s.spawn(move || {
                    let a = lo + t * chunk;
                    let b = (a + chunk - 1).min(hi);
                    let mut nontrivial = 0u64;
                    let mut n = 0u64;
                    let mut text = String::with_capacity(16);
                    let mut v = a;
                    while v <= b {
                        if n % (1 << 20) == 0 {
                            crate::engine::heartbeat();
                        }
                        n += 1;
                        text.clear();
                        rv::write(&mut text, v);
                        let r = guard(|| {
                            let g = generate_vlq_segment(&[v]).map_err(|e| e.to_string())?;
                            if g != text {
                                return Err(format!("generate({v}) = {g:?}, reference {text:?}"));
                            }
                            let p = parse_vlq_segment(&g).map_err(|e| format!("parse({g:?}) = Err({e})"))?;
                            if p != [v] {
                                return Err(format!("parse(generate({v})) = {p:?}"));
                            }
                            Ok(())
                        });
                        match r {
                            Ok(Ok(())) => {}
                            Ok(Err(e)) => return Err((v, e)),
                            Err(p) => return Err((v, p)),
                        }
                        if v % cross_stride == 0 && third_party_encode(v) != text {
                            return Err((v, format!("reference writer disagrees with the vlq crate on {v}")));
                        }
                        if text.len() >= 2 || v < 0 {
                            nontrivial += 1;
                        }
                        v += 1;
                    }
                    Ok((n, nontrivial))
                })
            })
            .collect();
        hs.into_iter().map(|h| h.join().unwrap_or(Err((0, "worker died".into())))).collect()
    });
    let mut evals = 0;
    let mut nt = 0;
    for r in results {
        match r {
            Ok((n, k)) => {
                evals += n;
                nt += k;
            }
            Err((v, reason)) => {
                ctx.fail("window", &Case::Values(vec![v]), reason);
                return;
            }
        }
    }
    ctx.bulk("window", evals, nt);
    ctx.note_exhaustive(format!("every integer in [{lo}, {hi}] (encode = reference writer, decode∘encode = id; third-party vlq crate cross-check every {cross_stride}th value)"));
    ctx.sample(json!({"sub": "window", "case": {"Values": [lo]}, "text": rv::write_all(&[lo])}));
    ctx.sample(json!({"sub": "window", "case": {"Values": [hi]}, "text": rv::write_all(&[hi])}));
}

fn powers(_t: Tier) -> Box<dyn Iterator<Item = Case>> {
    let mut v = vec![];
    for k in 0..=62u32 {
        let p = 1i128 << k;
        for x in [p - 1, p, p + 1] {
            if x < (1i128 << 62) {
                v.push(Case::Values(vec![x as i64]));
                v.push(Case::Values(vec![-(x as i64)]));
            }
        }
    }
    v.push(Case::Values(vec![(1 << 62) - 1, -((1 << 62) - 1), 0, 1, -1]));
    Box::new(v.into_iter())
}

fn lists(_t: Tier) -> BoxedStrategy<Case> {
    let val = prop_oneof![
        3 => -40i64..40,
        2 => -70000i64..70000,
        2 => (-(1i64 << 32) + 1)..(1i64 << 32),
        2 => any::<i64>().prop_map(|v| v % (1 << 62)),
        1 => (0u32..62, any::<bool>(), -1i64..=1).prop_map(|(k, neg, d)| {
            let x = ((1i64 << k) + d).clamp(-(1 << 62) + 1, (1 << 62) - 1);
            if neg { -x } else { x }
        }),
    ];
    // long runs of one-digit values with a few multi-digit ones in between (texts of 10..60 digits in
    // which a value straddles every kind of block boundary)
    let mostly_small = prop_oneof![10 => -15i64..16, 2 => -600i64..600, 1 => -70000i64..70000];
    let list = prop_oneof![3 => vec(val, 1..9), 2 => vec(mostly_small, 8..48)];
    (list, proptest::option::weighted(0.3, (any::<u16>(), -2i64..3, 0i64..3)))
        .prop_map(|(mut xs, twin)| {
            // neighbours that agree in their low 32 bits (or are equal / off by one)
            if let Some((at, m, d)) = twin {
                let i = crate::model::idx16(at, xs.len());
                let t = xs[i].saturating_add(m * (1i64 << 32)).saturating_add(d - 1);
                if t.unsigned_abs() < (1 << 62) {
                    xs.insert(i + 1, t);
                }
            }
            Case::Values(xs)
        })
        .boxed()
}

/// Every string over the base64 alphabet up to length 3 (quick) / 4 (thorough), "" included.
fn all_strings(t: Tier) -> Box<dyn Iterator<Item = Case>> {
    let max = t.pick(3, 4);
    let mut total = 0usize;
    for l in 0..=max {
        total += 64usize.pow(l as u32);
    }
    Box::new((0..total).map(move |mut i| {
        let mut len = 0;
        loop {
            let n = 64usize.pow(len as u32);
            if i < n {
                break;
            }
            i -= n;
            len += 1;
        }
        let mut s = String::with_capacity(len);
        for _ in 0..len {
            s.push(rv::ALPHABET[i % 64] as char);
            i /= 64;
        }
        Case::Text(s)
    }))
}

fn long_strings(_t: Tier) -> BoxedStrategy<Case> {
    // a value = run of continuation digits + a final digit; run lengths biased to 11..=14
    let value = (
        prop_oneof![4 => 0usize..3, 2 => 3usize..11, 5 => 10usize..=14, 1 => 14usize..20],
        vec(0u8..32, 20),
        any::<bool>(),
    )
        .prop_map(|(run, digits, terminated)| {
            let mut s = String::new();
            for d in digits.iter().take(run) {
                s.push(rv::ALPHABET[(32 | d) as usize] as char);
            }
            let last = digits[19];
            s.push(rv::ALPHABET[(if terminated { last } else { last | 32 }) as usize] as char);
            s
        });
    vec(value, 1..5).prop_map(|v| Case::Text(v.concat())).boxed()
}

/// Every char U+0000..U+07FF alone, and embedded between valid digits; plus 3/4-byte samples.
fn alphabet(_t: Tier) -> Box<dyn Iterator<Item = Case>> {
    let mut v = vec![];
    let mut chars: Vec<char> = (0u32..0x800).filter_map(char::from_u32).collect();
    for lead in [0x800u32, 0xfff, 0x1000, 0x20ac, 0xd7ff, 0xe000, 0xffff, 0x10000, 0x1f600, 0x3ffff, 0x40000, 0xfffff, 0x100000, 0x10ffff] {
        if let Some(c) = char::from_u32(lead) {
            chars.push(c);
        }
    }
    for c in chars {
        v.push(Case::Text(c.to_string()));
        v.push(Case::Text(format!("A{c}A")));
        v.push(Case::Text(format!("g{c}")));
        v.push(Case::Text(format!("{c}C")));
    }
    Box::new(v.into_iter())
}

// --- the deltas the map encoder emits -----------------------------------------------------------

/// Two tokens whose generated column / original line / original column go from `a` to `b`
/// (`field` 0..3); everything else stays put. "…this holds for every difference of two 32-bit
/// unsigned numbers, which is all the map encoder ever emits": the map's own serialisation is read
/// back with the reference reader.
#[derive(Clone, Debug, Hash, Serialize, Deserialize)]
pub struct DeltaCase {
    pub field: u8,
    pub a: u32,
    pub b: u32,
}

fn check_delta(c: &DeltaCase, obs: &mut Obs) -> Verdict {
    use sourcemap::{RawToken, SourceMap};
    let tok = |dc: u32, sl: u32, sc: u32| RawToken { dst_line: 0, dst_col: dc, src_line: sl, src_col: sc, src_id: 0, name_id: !0, is_range: false };
    let (t1, t2) = match c.field % 3 {
        // the generated column can only grow along a line
        0 => (tok(c.a.min(c.b), 1, 1), tok(c.a.max(c.b), 1, 1)),
        1 => (tok(0, c.a, 7), tok(1, c.b, 7)),
        _ => (tok(0, 7, c.a), tok(1, 7, c.b)),
    };
    let sm = SourceMap::new(None, vec![t1, t2], vec![], vec!["s.js".into()], None);
    let mut out = vec![];
    match crate::engine::guard(|| sm.to_writer(&mut out)) {
        Ok(Ok(())) => {}
        other => return Verdict::Fail(format!("to_writer: {other:?}")),
    }
    let v: serde_json::Value = match serde_json::from_slice(&out) {
        Ok(v) => v,
        Err(e) => return Verdict::Fail(format!("serialised map is not JSON: {e}")),
    };
    let Some(mappings) = v["mappings"].as_str() else { return Verdict::Fail("no mappings string".into()) };
    let dec = match crate::refimpl::v3::decode_mappings(mappings, 1, 0) {
        Ok(d) => d,
        Err(e) => return Verdict::Fail(format!("the reference reader rejects the emitted mappings {mappings:?}: {e:?}")),
    };
    let got: Vec<(u32, u32, u32, u32)> = dec.tokens.iter().map(|t| (t.dl, t.dc, t.src.as_ref().map(|s| s.line).unwrap_or(!0), t.src.as_ref().map(|s| s.col).unwrap_or(!0))).collect();
    // (whether the encoder drops an exact duplicate is its choice - C01 allows, does not demand it)
    let mut got = got;
    got.dedup();
    let mut want = vec![(0, t1.dst_col, t1.src_line, t1.src_col), (0, t2.dst_col, t2.src_line, t2.src_col)];
    want.dedup();
    if dec.out_of_u32 || got != want {
        return Verdict::Fail(format!(
            "map encoder: tokens {want:?} (field {} goes from {} to {}, difference {}) are written as {mappings:?}, which reads back as {got:?}",
            c.field % 3,
            c.a,
            c.b,
            i64::from(c.b) - i64::from(c.a)
        ));
    }
    let d = (i64::from(c.b) - i64::from(c.a)).unsigned_abs();
    obs.class_if(d >= 1 << 31, "map-encoder-delta>=2^31");
    obs.class_if(d >= 1 << 16, "map-encoder-delta>=2^16");
    obs.class_if(c.b < c.a && c.field % 3 != 0, "map-encoder-negative-delta");
    if d >= 32 {
        obs.nontrivial();
    }
    Verdict::Pass
}

fn delta_edges(_t: Tier) -> Box<dyn Iterator<Item = DeltaCase>> {
    let mut vals: Vec<u32> = vec![0, 1, 2, 15, 16, 17, 31, 32, 33];
    for k in 5..=32u32 {
        let p = 1u64 << k;
        for x in [p - 1, p, p + 1] {
            if x <= u64::from(u32::MAX) {
                vals.push(x as u32);
            }
        }
    }
    vals.push(u32::MAX - 1);
    vals.sort();
    vals.dedup();
    let mut out = vec![];
    for field in 0..3u8 {
        for &a in &vals {
            for &b in &vals {
                out.push(DeltaCase { field, a, b });
            }
        }
    }
    Box::new(out.into_iter())
}

fn delta_random(_t: Tier) -> BoxedStrategy<DeltaCase> {
    (0u8..3, crate::model::small_or_edge(), crate::model::small_or_edge(), any::<u32>(), any::<u32>(), any::<bool>())
        .prop_map(|(field, a, b, ra, rb, wide)| if wide { DeltaCase { field, a: ra, b: rb } } else { DeltaCase { field, a, b } })
        .boxed()
}

fn subs() -> Vec<Sub> {
    vec![
        enum_sub("map_encoder_deltas", delta_edges, check_delta),
        gen_sub("map_encoder_deltas_random", delta_random, |t| t.pick(60_000, 1_000_000), check_delta),
        custom_sub::<Case>("window", run_window, check),
        enum_sub("powers", powers, check),
        gen_sub("lists", lists, |t| t.pick(200_000, 2_000_000), check),
        enum_sub("all_strings", all_strings, check),
        gen_sub("long_strings", long_strings, |t| t.pick(400_000, 4_000_000), check),
        enum_sub("alphabet", alphabet, check),
    ]
}

pub const DEF: PropertyDef = PropertyDef {
    id: "C11",
    rule: "window: every integer of the window (distinct by construction; non-trivial = negative or >= 2 digits). \
           lists: proptest lists of 1..8 values up to 62 bits, or 8..47 mostly one-digit values (non-trivial = >= 2 values, one negative, one multi-digit). \
           all_strings: every base64-alphabet string up to length 3/4; long_strings: generated strings with continuation runs \
           biased to 11..14 digits (non-trivial = decodes with a run >= 2). alphabet: every char U+0000..U+07FF alone and \
           embedded, plus 3/4-byte samples (must be rejected unless in the alphabet). map_encoder_deltas: two-token maps whose generated column / original line / original column go from a to b for all pairs of 104 edge values (and random pairs), written by the map encoder and read back with the reference reader",
    assumptions: &[
        "13-digit values whose magnitude needs more than 62 bits are executed for crash-freedom only (the statement is silent)",
        "the reference writer is cross-checked against the third-party vlq crate",
    ],
    subs,
};
