//! C19 — `make_relative_path` leads from the base file to the target.
//!
//! Oracle: a reference resolver, independent of the crate. The returned string is split at
//! '/' and walked from the directory that contains the base file; the walk must end at the
//! target, must never climb above the start, and the result is "." only for the directory itself.

use proptest::collection::vec;
use proptest::prelude::*;
use proptest::sample::select;
use serde::{Deserialize, Serialize};
use sourcemap::make_relative_path;

use crate::engine::{enum_sub, gen_sub, guard, Obs, PropertyDef, Sub, Tier, Verdict};
use crate::{ensure, ensure_eq};

/// Both paths as they are handed to the crate. Components are ordinary names (never ".",
/// ".." or empty); separators are '/' or '\\'; a leading separator makes the path absolute.
#[derive(Clone, Debug, Hash, Serialize, Deserialize)]
pub struct Case {
    pub base: String,
    pub target: String,
}

const SEPS: [char; 2] = ['/', '\\'];

/// The harness's own reading of an input path: (absolute?, components).
fn parse(path: &str) -> (bool, Vec<&str>) {
    let abs = path.starts_with(&SEPS[..]);
    let body = if abs { &path[1..] } else { path };
    (abs, body.split(&SEPS[..]).collect())
}

fn ordinary(comps: &[&str]) -> bool {
    comps.iter().all(|c| !c.is_empty() && *c != "." && *c != "..")
}

/// Reference resolver: walks `rel` (split at '/' only) starting in `dir`.
fn resolve<'a>(dir: &[&'a str], rel: &'a str) -> Result<Vec<&'a str>, String> {
    let mut stack = dir.to_vec();
    for (i, step) in rel.split('/').enumerate() {
        match step {
            ".." => {
                if stack.pop().is_none() {
                    return Err(format!("step {i} ('..') climbs above the start of the base path"));
                }
            }
            "." | "" => {}
            name => stack.push(name),
        }
    }
    Ok(stack)
}

const CELLS: [[&str; 4]; 4] = [
    ["remaining=0,climb=0", "remaining=0,climb=1", "remaining=0,climb=2", "remaining=0,climb=3+"],
    ["remaining=1,climb=0", "remaining=1,climb=1", "remaining=1,climb=2", "remaining=1,climb=3+"],
    ["remaining=2,climb=0", "remaining=2,climb=1", "remaining=2,climb=2", "remaining=2,climb=3+"],
    ["remaining=3+,climb=0", "remaining=3+,climb=1", "remaining=3+,climb=2", "remaining=3+,climb=3+"],
];

/// The property for one case, for any implementation `f` (the crate's, or a test double).
fn judge(case: &Case, obs: &mut Obs, f: fn(&str, &str) -> String) -> Verdict {
    let (base_abs, base) = parse(&case.base);
    let (target_abs, target) = parse(&case.target);
    ensure!(
        ordinary(&base) && ordinary(&target) && base_abs == target_abs,
        "harness input error (not a crate defect): {case:?} is outside the domain \
         (ordinary components only, both paths absolute or both relative)"
    );
    let dir = &base[..base.len() - 1];

    let got = match guard(|| f(&case.base, &case.target)) {
        Ok(s) => s,
        Err(p) => return Verdict::Fail(format!("make_relative_path({:?}, {:?}): {p}", case.base, case.target)),
    };
    let call = format!("make_relative_path({:?}, {:?}) = {got:?}", case.base, case.target);

    let reached = match resolve(dir, &got) {
        Ok(r) => r,
        Err(e) => return Verdict::Fail(format!("{call}: {e} (base directory {dir:?})")),
    };
    ensure_eq!(reached, target, "{call}: resolved against the base directory {dir:?} it does not reach the target");
    let same_dir = target == dir;
    ensure!(
        (got == ".") == same_dir,
        "{call}: the result must be \".\" exactly when the target is the base directory (target==dir: {same_dir})"
    );

    let shared = dir.iter().zip(&target).take_while(|(a, b)| a == b).count();
    let (remaining, climb) = (target.len() - shared, dir.len() - shared);
    obs.class(CELLS[remaining.min(3)][climb.min(3)]);
    obs.class(if base_abs { "absolute" } else { "relative" });
    obs.class_if(case.base.contains('\\') || case.target.contains('\\'), "backslash");
    obs.class_if(got == ".", "result-is-dot");
    if remaining >= 2 || climb >= 2 {
        obs.nontrivial();
    }
    Verdict::Pass
}

fn check(case: &Case, obs: &mut Obs) -> Verdict {
    judge(case, obs, make_relative_path)
}

fn render(abs: bool, comps: &[&str], sep: impl Fn(usize) -> char) -> String {
    let mut s = String::new();
    for (i, c) in comps.iter().enumerate() {
        if i > 0 || abs {
            s.push(sep(i));
        }
        s.push_str(c);
    }
    s
}

/// Every path of 1..=4 components over {a,b,c}, shortest first.
fn small_paths() -> Vec<Vec<&'static str>> {
    paths_over(&["a", "b", "c"], 4)
}

fn paths_over(pool: &'static [&'static str], depth: usize) -> Vec<Vec<&'static str>> {
    let mut all: Vec<Vec<&'static str>> = vec![];
    let mut level: Vec<Vec<&'static str>> = vec![vec![]];
    for _ in 0..depth {
        level = level
            .iter()
            .flat_map(|p| pool.iter().map(move |c| [p.as_slice(), &[*c]].concat()))
            .collect();
        all.extend(level.iter().cloned());
    }
    all
}

/// Names that are different components although they look alike: letter case, composed and
/// decomposed accents. 84 x 84 paths of 1..3 components x {absolute, relative} x {'/', '\\'}.
fn exhaustive_lookalikes(_t: Tier) -> Box<dyn Iterator<Item = Case>> {
    all_pairs(paths_over(&["a", "A", "é", "e\u{301}"], 3))
}

/// Names that begin or end with dots (hidden files and directories) without being `.` or `..`.
fn exhaustive_dot_names(_t: Tier) -> Box<dyn Iterator<Item = Case>> {
    all_pairs(paths_over(&["a", ".a", "..a", "a."], 3))
}

fn all_pairs(paths: Vec<Vec<&'static str>>) -> Box<dyn Iterator<Item = Case>> {
    let mut pairs: Vec<(usize, usize)> = (0..paths.len()).flat_map(|b| (0..paths.len()).map(move |t| (b, t))).collect();
    pairs.sort_by_key(|&(b, t)| paths[b].len() + paths[t].len());
    Box::new(pairs.into_iter().flat_map(move |(b, t)| {
        let (base, target) = (paths[b].clone(), paths[t].clone());
        [(true, '/'), (false, '/'), (true, '\\'), (false, '\\')].into_iter().map(move |(abs, sep)| Case {
            base: render(abs, &base, |_| sep),
            target: render(abs, &target, |_| sep),
        })
    }))
}

/// 120 base paths x 120 target paths x {absolute, relative} x {'/', '\\'} = 57 600 pairs,
/// ordered by total number of components so that the first failure is a small one.
fn exhaustive(_t: Tier) -> Box<dyn Iterator<Item = Case>> {
    let paths = small_paths();
    let mut pairs: Vec<(usize, usize)> =
        (0..paths.len()).flat_map(|b| (0..paths.len()).map(move |t| (b, t))).collect();
    pairs.sort_by_key(|&(b, t)| paths[b].len() + paths[t].len());
    Box::new(pairs.into_iter().flat_map(move |(b, t)| {
        let (base, target) = (paths[b].clone(), paths[t].clone());
        [(true, '/'), (false, '/'), (true, '\\'), (false, '\\')].into_iter().map(move |(abs, sep)| Case {
            base: render(abs, &base, |_| sep),
            target: render(abs, &target, |_| sep),
        })
    }))
}

/// Pairs of 1..=6 components from a six-name pool, every separator (the leading one too) drawn
/// independently; half of the pairs are built around a shared prefix of 1..=3 components.
fn random(_t: Tier) -> BoxedStrategy<Case> {
    let name = || select(vec!["a", "b", "c", "d", "x.js", "y.map", "ab", "a.js", "x", "x.j", "A", "X.JS", "é", "e\u{301}", "a.", "可是呢", "抽屜", "į", "Ŝx", "是", ".maps", ".a", "..b", "...", ".a.", "-", "~", "a b", "a:b"]);
    let independent = (vec(name(), 1..=6), vec(name(), 1..=6));
    let related = (vec(name(), 1..=3), vec(name(), 0..=5), vec(name(), 0..=3)).prop_map(|(shared, b, t)| {
        let mut base = [shared.clone(), b].concat();
        base.truncate(6);
        (base, [shared, t].concat())
    });
    // deep trees: dozens of levels to climb or to descend
    let deep = (vec(name(), 0..=5), vec(name(), 8..=40), vec(name(), 0..=40)).prop_map(|(shared, b, t)| {
        let mut target = [shared.clone(), t].concat();
        if target.is_empty() {
            target.push("a");
        }
        ([shared, b].concat(), target)
    });
    let pair = prop_oneof![4 => independent, 4 => related, 1 => deep];
    (pair, any::<bool>(), vec(any::<bool>(), 48), vec(any::<bool>(), 48))
        .prop_map(|((base, target), abs, bs, ts)| Case {
            base: render(abs, &base, |i| SEPS[bs[i] as usize]),
            target: render(abs, &target, |i| SEPS[ts[i] as usize]),
        })
        .boxed()
}

fn subs() -> Vec<Sub> {
    let all = enum_sub("exhaustive", exhaustive, check);
    let run_all = all.run;
    let exhaustive = Sub {
        run: Box::new(move |ctx| {
            run_all(ctx);
            if !ctx.failed() {
                ctx.note_exhaustive("every base x target of 1..4 components over {a,b,c} x {absolute, relative} x {'/', '\\'}");
            }
        }),
        ..all
    };
    vec![
        exhaustive,
        enum_sub("exhaustive_lookalikes", exhaustive_lookalikes, check),
        enum_sub("exhaustive_dot_names", exhaustive_dot_names, check),
        gen_sub("random", random, |t| t.pick(300_000, 1_000_000), check),
    ]
}

pub const DEF: PropertyDef = PropertyDef {
    id: "C19",
    rule: "exhaustive: every base path x target path of 1..4 components over {a,b,c} x {both absolute, both relative} \
           x separator '/' or '\\' (57 600 pairs). random: proptest pairs of 1..6 components from {a,b,c,d,x.js,y.map,ab,a.js,x,x.j} (names that are prefixes of one another) \
           with mixed separators, half of them around a shared prefix (the cell remaining=0,climb=3+ needs a base of \
           at least 5 components and is reached by random only). exhaustive_dot_names: every pair of paths of 1..3 components over {a, .a, ..a, a.}. exhaustive_lookalikes: paths over {a, A, e-acute composed, e-acute decomposed}. Non-trivial = at least 2 target components \
           remain after the prefix shared with the base directory, or at least 2 levels must be climbed",
    assumptions: &[
        "components are ordinary names (never '.', '..' or empty) and both paths are of the same kind (the statement's precondition)",
        "the returned path is read as '/'-separated: '..' climbs, '.' and empty steps stay, any other step descends",
    ],
    subs,
};

#[cfg(test)]
mod tests {
    use super::*;
    use crate::engine::sample_strategy;
    use std::collections::BTreeSet;

    fn dir_and_target<'a>(base: &'a str, target: &'a str) -> (Vec<&'a str>, Vec<&'a str>) {
        let mut dir = parse(base).1;
        dir.pop();
        (dir, parse(target).1)
    }

    /// `skip_climb` drops that many "..", `pop` removes the base file name first.
    fn relative(base: &str, target: &str, skip_climb: usize, pop: bool) -> String {
        let (mut dir, target) = dir_and_target(base, target);
        if !pop {
            dir.push("file");
        }
        let shared = dir.iter().zip(&target).take_while(|(a, b)| a == b).count();
        let mut steps = vec![".."; (dir.len() - shared).saturating_sub(skip_climb)];
        steps.extend_from_slice(&target[shared..]);
        if steps.is_empty() { ".".into() } else { steps.join("/") }
    }

    fn corrected(base: &str, target: &str) -> String {
        relative(base, target, 0, true)
    }
    fn one_climb_too_few(base: &str, target: &str) -> String {
        relative(base, target, 1, true)
    }
    fn base_not_popped(base: &str, target: &str) -> String {
        relative(base, target, 0, false)
    }
    fn never_dot(base: &str, target: &str) -> String {
        let r = corrected(base, target);
        if r == "." { String::new() } else { r }
    }

    fn all_cases() -> Vec<Case> {
        let mut cases: Vec<Case> = exhaustive(Tier::Quick).collect();
        assert_eq!(cases.len(), 57_600);
        let random = sample_strategy(&random(Tier::Quick), 19, 20_000);
        assert_eq!(random.len(), 20_000);
        cases.extend(random);
        cases
    }

    #[test]
    fn oracle_accepts_the_corrected_implementation_and_fills_the_matrix() {
        let (mut seen, mut nontrivial) = (BTreeSet::new(), 0);
        for (i, case) in all_cases().iter().enumerate() {
            let mut obs = Obs::default();
            let v = judge(case, &mut obs, corrected);
            assert!(v.is_pass(), "{case:?}: {v:?}");
            nontrivial += obs.nontrivial as usize;
            seen.extend(obs.classes.iter().map(|c| (i < 57_600, *c)));
        }
        for cell in CELLS.iter().flatten().chain(&["absolute", "relative", "backslash", "result-is-dot"]) {
            // a target that is an ancestor 3 levels up needs a base of >= 5 components
            let in_exhaustive = *cell != "remaining=0,climb=3+";
            assert_eq!(seen.contains(&(true, *cell)), in_exhaustive, "class {cell} in the exhaustive set");
            assert!(seen.contains(&(false, *cell)), "class {cell} never seen in the random set");
        }
        assert!(nontrivial > 30_000, "{nontrivial}");
    }

    #[test]
    fn oracle_rejects_wrong_implementations() {
        let cases = all_cases();
        for (name, f) in [
            ("one '..' too few", one_climb_too_few as fn(&str, &str) -> String),
            ("base file not popped", base_not_popped),
            ("empty string instead of '.'", never_dot),
        ] {
            let rejected = cases.iter().filter(|c| !judge(c, &mut Obs::default(), f).is_pass()).count();
            assert!(rejected > 0, "{name}: accepted everywhere");
        }
    }
}
