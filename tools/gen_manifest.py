#!/usr/bin/env python3
"""Regenerates /verif/MANIFEST.json from the table below (kept next to the checks so the
manifest cannot drift from what is built)."""
import json, subprocess

CHECKS = {
 "C11": dict(
   technique="exhaustive enumeration + proptest generated lists/strings, differential against an independent VLQ codec (itself cross-checked against the third-party vlq crate)",
   text="Exploration: every integer of a window (quick ±2^22, thorough the complete 33-bit delta range), every base64 string up to length 3/4, every char up to U+07FF, plus generated long lists/strings; each compared with an independent reference codec. Finite sub-spaces are enumerated completely (exhaustive_subspaces in the evidence), the rest is sampled.",
   note="Trusts the harness reference codec (cross-checked against the vlq crate) and rustc overflow checks; 13-digit values beyond 62 bits are crash-freedom only.",
   ref="§6 C11"),
}

NOT_YET = "check not built yet (work in progress; see DESIGN.md §10 order of work)"
ALL = ["C%02d" % i for i in range(1, 21)]

def main():
    hooks_commits = []
    try:
        out = subprocess.run(["git", "-C", "/repo", "log", "--format=%h %s"], capture_output=True, text=True).stdout
        hooks_commits = [l.split()[0] for l in out.splitlines() if "verif hook" in l]
    except Exception:
        pass
    m = {
      "version": 1,
      "setup_cmd": "./setup.sh",
      "hooks": {
        "guard": "sourcemap_verif",
        "enable": "RUSTFLAGS=\"--cfg sourcemap_verif\" (set for every harness build in /verif/harness/.cargo/config.toml)",
        "baseline_off_cmd": "cd /repo && cargo test --workspace --no-fail-fast --offline",
        "source_commits": hooks_commits,
        "add_only": True,
      },
      "engines": [
        {"name": "smcheck", "path": "harness/", "serves_properties": sorted(CHECKS),
         "kind_free_text": "Rust binary: proptest TestRunner (fixed seed from VERIF_SEED, shrinking, replay files), exhaustive enumerators, reference models; libFuzzer targets under harness/fuzz for the byte-level properties"},
      ],
      "checks": [],
      "not_applicable": [],
      "notes": "All checks: ./check <id> --tier quick|thorough; replay with ./check <id> --replay <file>. Exit 2 = inconclusive (never a violation). Known findings: known_findings.json.",
    }
    for pid in ALL:
        c = CHECKS.get(pid)
        if not c:
            m["not_applicable"].append({"property_id": pid, "reason": NOT_YET})
            continue
        m["checks"].append({
          "property_id": pid,
          "quick_cmd": f"./check {pid} --tier quick",
          "thorough_cmd": f"./check {pid} --tier thorough",
          "evidence_file": f"/verif/evidence/{pid}.json",
          "replay_cmd_template": f"./check {pid} --replay {{path}}",
          "engine": "smcheck",
          "level_claimed": {"category": "exploration", "text": c["text"], "design_ref": c["ref"]},
          "level_note": c["note"],
          "technique": c["technique"],
        })
    if not m["not_applicable"]:
        del m["not_applicable"]
    json.dump(m, open("/verif/MANIFEST.json", "w"), indent=1)
    print("wrote MANIFEST.json:", len(m["checks"]), "checks")

main()
