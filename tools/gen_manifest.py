#!/usr/bin/env python3
"""Regenerates /verif/MANIFEST.json from the table below (kept next to the checks so the
manifest cannot drift from what is built)."""
import json, subprocess

CHECKS = {}

def C(pid, technique, text, note):
    CHECKS[pid] = dict(technique=technique, text=text, note=note, ref="§6 " + pid)

EXPL = "Exploration by generated-input search against an explicit oracle; finite sub-spaces that are enumerated completely are listed under exhaustive_subspaces in the evidence. It never proves absence: bounds, class histograms and the measured number of distinct non-trivial cases are reported. "

C("C01", "proptest model-based round trip (observation function over public accessors + byte-level idempotence), also after every step of a generated history on one living object (setters, adjust_mappings, lookups, clone, inside an index section); shrinking to a replay file",
  EXPL + "Model maps of all three kinds through builder / raw constructor / independent JSON encoder, compared with the model and after ser->decode; ser∘dec∘ser byte-identical.",
  "Trusts the harness models and the third-party debugid parser; exact consecutive duplicates are normalised as the statement allows.")
C("C02", "proptest differential: documents written by an independent v3 encoder, expected map computed from the abstract document model",
  EXPL + "No decoding on the oracle side: the expectation comes from the model the document was written from.",
  "Trusts the harness encoder (own VLQ writer cross-checked against the vlq crate in C11); token order among equal positions not compared.")
C("C03", "proptest differential: crate output read back by serde_json::Value plus an independent mappings/rangeMappings reader; stateful histories (vec of ops + interpreter) that serialise the same object again after every mutator / read-only use",
  EXPL + "Every producer (builder, decode, rewrite, flatten, adjust_mappings, round trip), recursively for index sections.",
  "Trusts the harness reader; well-formed maps only.")
C("C04", "proptest model-based lookups against a linear-scan oracle; operation histories (vec of ops + interpreter) with the ordering invariant after every step; iterator-protocol conformance (nth/skip/step_by/count/last/size_hint/mixed walks) of tokens() and the list iterators",
  EXPL + "Queries are derived from every token position (exact, +-1, line ends, neighbouring lines, corners).",
  "Inexact hits accept any token at the greatest position (the statement fixes the first token only for exact hits).")
C("C05", "fuzzing + proptest: one battery (all entry points, allocation bound, full query battery, serialise->decode, rewrite, flatten) driven by structured fault documents, byte mutations of a corpus, arbitrary bytes; thorough tier adds coverage-guided libFuzzer (ASan) with the same battery in the target",
  EXPL + "Crash-freedom under catch_unwind with overflow checks and debug assertions on; allocation measured by a counting allocator.",
  "Hangs are a watchdog signal and reported as inconclusive; K3 (third-party debugid) tolerated by its exact signature.")
C("C06", "proptest fault injection on a well-formed twin (arity, index out of range both ways and +-m*2^32, cut-off, over-long, foreign character) + exhaustive foreign-byte sweep; independent reader confirms each fault",
  EXPL + "The un-faulted twin must decode, the faulted document must be rejected.",
  "Any error variant is accepted; faults are the five kinds the statement lists.")
C("C07", "exhaustive enumeration of small shapes x every range-flag subset + proptest random lines with forced positions (15..18, 31..34, first/last/sparse); independent rangeMappings reader/writer; lookup shift model",
  EXPL + "Decoder side, encoder side, round trip and lookups are each compared with the model.",
  "Documents without empty segments; saturating shifts are crash-freedom only.")
C("C08", "proptest model-based: reference flattener and section-wise reference lookup over generated indexes (nested, Hermes, url-only, same-line sections), index lookup == flattened lookup, flatten_and_rewrite == flatten+rewrite; living-index histories (mutators below sections, sections overwritten at new offsets) with the same oracles after every step",
  EXPL + "Tokens are clipped below the next section's offset by construction (the statement's precondition).",
  "Small coordinates; ties accept any member of the tie set.")
C("C09", "proptest metamorphic relation: rewrite(options) must preserve what every token resolves to; prefixes derived from the map's own source names; Hermes scopes before/after; lookups at every token position resolve to corresponding tokens before and after",
  EXPL + "All four names/contents combinations and 0..3 prefixes incl. '~'.",
  "The common prefix picked for '~' is not re-derived (only its shape and consistency are checked).")
C("C10", "exhaustive small grids + proptest random pairs against a brute-force interval-composition reference (all orders of tokens sharing a position); chains of compositions over a pool of maps (a map used as adjustment, adjusted itself, used again), each step judged on the token lists read just before it",
  EXPL + "Result compared as a multiset with payload identification.",
  "K1 (extra tokens for zero-length stretches) tolerated only by its exact signature.")
C("C12", "proptest + exhaustive chunkings: differential reader vs slice vs data URL under a harness Read that serves generated chunkings; thorough tier adds a libFuzzer target over (chunk sizes, document)",
  EXPL + "Every subset of cut points for the small documents; generated cuts always offered around the header end.",
  "The harness reader never returns 0 before EOF.")
C("C13", "proptest stateful histories (vec of builder/map operations + interpreter) against an interning model; cloned-from maps kept alive and re-read after later operations",
  EXPL + "Returned ids, resolved tokens and the serialised raw names/root are checked after every map operation.",
  "Setter preconditions (existing id) are respected by construction.")
C("C14", "proptest model-based: Metro-style function maps written by the harness, independent Metro reader + linear scan as oracle, answers repeated after a round trip; bytecode offsets inside range mappings",
  EXPL + "Ill-formed function maps (cut-off, 14-digit, foreign character) for single sources must not disturb the others.",
  "Entries sorted and distinct by (line, column).")
C("C15", "exhaustive small texts x request orders + proptest histories against a reference splitter and UTF-16 slicer; iterator-protocol conformance of lines()",
  EXPL + "Any access order, clones of partially indexed views, slices with edge values.",
  "A start column strictly inside a surrogate pair accepts the slice with or without that pair (the end is fixed by c+n).")
C("C16", "schedule exploration owned by the harness: scenario threads are fibers resumed one at a time at the yield points (deterministic), exhaustive DFS over all interleavings for small scenario shapes, proptest (scenario, schedule) pairs for larger ones, structural deadlock detection, free-running stress on real threads; reference splitter as oracle",
  EXPL + "Needs the add-only cfg(sourcemap_verif) yield hook; executions are a deterministic function of (text, calls, schedule) (self-checked).",
  "Interleavings at the granularity of the yield points (sequentially consistent): what two threads do at the same instant inside a critical section or between two Relaxed atomics is only probed by the stress run. Deadlock = executor thread asleep in the kernel without CPU time or context switches over 2 s; any other lack of progress is inconclusive.")
C("C17", "proptest generated minified programs + maps against an independent reference walk (128-token window, UTF-16 columns)",
  EXPL + "Window-boundary sub for distances around 128.",
  "Identifier classification restricted to an unambiguous pool; K2 (index sections at non-zero offsets) tolerated by its signature.")
C("C18", "proptest: generated files against a reference scan (slice, chunked reader and SourceView::sourcemap_reference), data-URL round trip incl. discovery from a comment, detection predicate on all map kinds",
  EXPL,
  "Valid UTF-8 texts with \\n / \\r\\n endings.")
C("C19", "exhaustive enumeration (57 600 pairs, plus look-alike and dot-leading names) + proptest random pairs against a reference path resolver",
  EXPL,
  "Ordinary components, both paths of the same kind (the statement's precondition).")
C("C20", "proptest model bundles with every truncation and field edits + arbitrary bytes against an independent header reader; iterator-protocol conformance of iter_modules(); slice and owning entry points compared; thorough tier adds a libFuzzer target (ASan)",
  EXPL,
  "Designated payload range = offset..offset+length-1; Err is accepted for corrupted inputs even when the range is inside the buffer.")
CHECKS["C11"] = dict(
   technique="exhaustive enumeration + proptest generated lists/strings, differential against an independent VLQ codec (itself cross-checked against the third-party vlq crate)",
   text=EXPL + "Every integer of a window (quick +-2^22, thorough the complete 33-bit delta range), every base64 string up to length 3/4, every char up to U+07FF, generated long lists/strings.",
   note="Trusts the harness reference codec (cross-checked against the vlq crate) and rustc overflow checks; 13-digit values beyond 62 bits are crash-freedom only.",
   ref="§6 C11")

NOT_YET = "check not built yet (work in progress; see DESIGN.md §10 order of work)"
ALL = ["C%02d" % i for i in range(1, 21)]

def main():
    hooks_commits = []
    try:
        out = subprocess.run(["git", "-C", "/repo", "log", "--format=%h %s"], capture_output=True, text=True).stdout
        hooks_commits = [l.split()[0] for l in out.splitlines() if "verif hook" in l]
    except Exception:
        pass
    m = {
      "version": 1,
      "setup_cmd": "./setup.sh",
      "hooks": {
        "guard": "sourcemap_verif",
        "enable": "RUSTFLAGS=\"--cfg sourcemap_verif\" (set for every harness build in /verif/harness/.cargo/config.toml)",
        "baseline_off_cmd": "cd /repo && cargo test --workspace --no-fail-fast --offline",
        "source_commits": hooks_commits,
        "add_only": True,
      },
      "engines": [
        {"name": "smcheck", "path": "harness/", "serves_properties": sorted(CHECKS),
         "kind_free_text": "Rust binary: proptest TestRunner (fixed seed from VERIF_SEED, shrinking, replay files), exhaustive enumerators, reference models; libFuzzer targets under harness/fuzz for the byte-level properties"},
      ],
      "checks": [],
      "not_applicable": [],
      "notes": "All checks: ./check <id> --tier quick|thorough; replay with ./check <id> --replay <file>. Exit 2 = inconclusive (never a violation). Known findings: known_findings.json.",
    }
    for pid in ALL:
        c = CHECKS.get(pid)
        if not c:
            m["not_applicable"].append({"property_id": pid, "reason": NOT_YET})
            continue
        m["checks"].append({
          "property_id": pid,
          "quick_cmd": f"./check {pid} --tier quick",
          "thorough_cmd": f"./check {pid} --tier thorough",
          "evidence_file": f"/verif/evidence/{pid}.json",
          "replay_cmd_template": f"./check {pid} --replay {{path}}",
          "engine": "smcheck",
          "level_claimed": {"category": "exploration", "text": c["text"], "design_ref": c["ref"]},
          "level_note": c["note"],
          "technique": c["technique"],
        })
    if not m["not_applicable"]:
        del m["not_applicable"]
    json.dump(m, open("/verif/MANIFEST.json", "w"), indent=1)
    print("wrote MANIFEST.json:", len(m["checks"]), "checks")

main()
