#!/usr/bin/env python3
"""Writes /verif/seeded/RESULTS.md from the meta.json files."""
import glob, json, os

rows = []
for p in sorted(glob.glob("/verif/seeded/C*-*/meta.json")):
    m = json.load(open(p))
    name = os.path.basename(os.path.dirname(p))
    notes = ""
    np_ = os.path.join(os.path.dirname(p), "notes.md")
    if os.path.exists(np_):
        for line in open(np_):
            line = line.strip()
            if line and not line.startswith("#"):
                notes = line[:200]
                break
    rows.append((name, m, notes))

out = ["# Seeded defects (written by fresh sub-agents from the property text only)", "",
       "Each change was confirmed by `tools/seeded.py verify` in a scratch worktree (compiles, repository tests pass with it,",
       "its demonstration fails with and passes without it) and then applied to /repo (`git apply`), the quick tier of the",
       "checks was run, and the tree was restored (`git checkout -- .`).", "",
       "(rounds 3 to 8 were run in a private copy of /repo and /verif, `tools/seeded.py run-scratch`, because background runs were using /repo).", "",
       "Round 1 = variants a, b; round 2 = c, d (asked to be hard to hit: sizes, boundaries, coincidences); round 3 = e, f (cooperating sites,",
       "multi-step sequences, less-travelled API paths); round 4 = g, h (feature interactions, alternate entry points, edge classification,",
       "order/aliasing); round 5 = i, j (composition of operations, text-encoding subtleties, performance-motivated approximations,",
       "defaults and optionals, error paths and partial state); round 6 = k, l (symmetric / self-consistent changes, coincidences of two",
       "values, call patterns such as idempotence and aliasing, a field forgotten on one path, first / last / only element); round 7 = m (one",
       "change per property, asked to be as hard to expose as possible: rare-but-legal encodings, trait-provided functionality, doc-comment",
       "promises, leaks from neighbouring features, last iterations with trailing separators); round 8 = n (all twenty properties in two batches: state shared between calls or clones, the second of two near-identical paths, narrowing / sign conversions, order of equals, Some(empty) vs None on one path, relations between two functions). The column 'before' is the outcome with the harness as it stood when that round's seeds were written, i.e. the",
       "independent number; 'caught by' is the outcome with the current harness (after the improvements the misses led to: DESIGN.md §11.5, §11.7, §11.8).", "",
       "| seed | confirmed | caught by (quick tier, current harness) | before | first failing sub-check / reason |", "|---|---|---|---|---|"]
caught = 0
for name, m, notes in rows:
    cb = m.get("caught_by", [])
    if cb:
        caught += 1
    reason = ""
    for c in cb[:1]:
        reason = m["checks"][c]["reason"].replace("|", "\\|")[:220]
    if not cb and m.get("disposition"):
        reason = m["disposition"].replace("|", "\\|")[:260]
    before = ""
    if "checks_before" in m:
        before = ", ".join(m.get("caught_by_before", [])) or "missed"
    out.append(f"| {name} | {'yes' if m.get('confirmed') else 'NO'} | {', '.join(cb) if cb else '**missed**' if 'checks' in m else 'not run'} | {before} | {reason} |")
out += ["", f"{caught} of {len(rows)} seeded changes are caught by the quick tier of at least one check (current harness).", ""]
for rnd, vs in ((1, "ab"), (2, "cd"), (3, "ef"), (4, "gh"), (5, "ij"), (6, "kl"), (7, "m"), (8, "n")):
    rr = [(n, m) for n, m, _ in rows if n[-1] in vs]
    own_now = sum(1 for n, m in rr if n[:3] in m.get("caught_by", []))
    any_now = sum(1 for n, m in rr if m.get("caught_by"))
    if rnd == 1:
        out.append(f"Round {rnd}: {len(rr)} seeds; caught at the first attempt by the owning check: {own_now} (no 'before' column: the harness was not changed for them, except C05-b, see DESIGN.md §11.4).")
    else:
        own_before = sum(1 for n, m in rr if n[:3] in m.get("caught_by_before", []))
        out.append(f"Round {rnd}: {len(rr)} seeds; before: {own_before} caught by the owning check; now: {own_now} by the owning check, {any_now} by some check.")
out.append("")
open("/verif/seeded/RESULTS.md", "w").write("\n".join(out))
print(f"{caught}/{len(rows)} caught")
