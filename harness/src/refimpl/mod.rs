pub mod v3;
pub mod vlq;
