//! C12 — reader, slice and data-URL decoding agree, however the stream is chunked.

use std::io::Read;

use proptest::collection::vec;
use proptest::prelude::*;
use serde::{Deserialize, Serialize};
use sourcemap::{decode, decode_data_url, decode_slice, is_sourcemap, is_sourcemap_slice, DecodedMap};

use super::c02::doc_strategy;
use super::common::ser;
use crate::engine::{enum_sub, gen_sub, guard, Obs, PropertyDef, Sub, Tier, Verdict};
use crate::model::*;
use crate::refimpl::v3::base64;
use crate::ensure;

#[derive(Clone, Debug, Hash, Serialize, Deserialize)]
pub struct Case {
    pub bytes: Vec<u8>,
    /// length of the junk header including its line terminator (0 = none); classification only
    pub header_len: usize,
    /// offsets at which the stream is cut (a read never crosses a cut)
    pub cuts: Vec<usize>,
    /// a read returns at most this many bytes (0 = unlimited)
    pub max_read: usize,
    /// classification only: how the header line ends
    pub ending: Ending,
    pub body_valid: bool,
}

#[derive(Clone, Copy, Debug, Hash, PartialEq, Eq, Serialize, Deserialize)]
pub enum Ending {
    NoHeader,
    Lf,
    CrLf,
    BareCrThenByte,
    CrAtEof,
    Unterminated,
    /// a \r in the middle of the header line that is *not* followed by \n (the line ends later)
    CrInsideHeader,
    /// a first line that does not start with a junk character, followed by a newline
    NotJunk,
}

/// A reader that serves `data` in pieces: never across a cut, never more than `max_read`.
pub struct Chunked<'a> {
    pub data: &'a [u8],
    pub pos: usize,
    pub cuts: &'a [usize],
    pub max_read: usize,
    pub reads: usize,
}

impl Read for Chunked<'_> {
    fn read(&mut self, buf: &mut [u8]) -> std::io::Result<usize> {
        if self.pos >= self.data.len() || buf.is_empty() {
            return Ok(0);
        }
        let mut end = self.data.len();
        if let Some(c) = self.cuts.iter().copied().filter(|c| *c > self.pos).min() {
            end = end.min(c);
        }
        let mut n = (end - self.pos).min(buf.len());
        if self.max_read > 0 {
            n = n.min(self.max_read);
        }
        buf[..n].copy_from_slice(&self.data[self.pos..self.pos + n]);
        self.pos += n;
        self.reads += 1;
        Ok(n)
    }
}

fn outcome(m: &Result<DecodedMap, String>) -> Result<(ObsAny, Vec<u8>), ()> {
    match m {
        Ok(m) => Ok((obs_any(m), ser(m).unwrap_or_default())),
        Err(_) => Err(()),
    }
}

fn dec_with(how: &str, f: impl FnOnce() -> sourcemap::Result<DecodedMap>) -> Result<Result<DecodedMap, String>, String> {
    match guard(f) {
        Ok(Ok(m)) => Ok(Ok(m)),
        Ok(Err(e)) => Ok(Err(e.to_string())),
        Err(p) => Err(format!("{how}: {p}")),
    }
}

pub fn check_bytes(bytes: &[u8], cuts: &[usize], max_read: usize) -> Result<(bool, usize), String> {
    let by_slice = dec_with("decode_slice", || decode_slice(bytes))?;
    let mut rdr = Chunked { data: bytes, pos: 0, cuts, max_read, reads: 0 };
    let by_reader = dec_with("decode(reader)", || decode(&mut rdr))?;
    let reads = rdr.reads;
    let a = outcome(&by_slice);
    let b = outcome(&by_reader);
    {
        let mut rdr = Chunked { data: bytes, pos: 0, cuts, max_read, reads: 0 };
        let alias = dec_with("DecodedMap::from_reader", || DecodedMap::from_reader(&mut rdr))?;
        if outcome(&alias) != b {
            return Err(format!("DecodedMap::from_reader and decode(reader) differ (cuts {cuts:?}, max_read {max_read})"));
        }
    }
    match (&a, &b) {
        (Err(()), Err(())) => {}
        (Ok(x), Ok(y)) => {
            if x.0 != y.0 {
                return Err(format!("reader and slice decode to different maps (cuts {cuts:?}, max_read {max_read}): reader={:?} slice={:?}", y.0, x.0));
            }
            if x.1 != y.1 {
                return Err(format!("reader and slice maps serialise differently (cuts {cuts:?}, max_read {max_read})"));
            }
        }
        _ => {
            return Err(format!(
                "decode_slice is {} but decode(reader) is {} (cuts {cuts:?}, max_read {max_read})",
                by_slice.as_ref().map(|_| "Ok".to_string()).unwrap_or_else(|e| format!("Err({e})")),
                by_reader.as_ref().map(|_| "Ok".to_string()).unwrap_or_else(|e| format!("Err({e})")),
            ))
        }
    }
    // the typed entry points: from_reader under the same chunking against from_slice, and each
    // against the untyped decode (Ok exactly when the document is of that kind, and then the same map)
    type Typed<'a> = (&'static str, Box<dyn Fn() -> sourcemap::Result<DecodedMap> + 'a>, Box<dyn Fn(&mut Chunked) -> sourcemap::Result<DecodedMap> + 'a>);
    let typed: Vec<Typed> = vec![
        (
            "SourceMap",
            Box::new(|| sourcemap::SourceMap::from_slice(bytes).map(DecodedMap::Regular)),
            Box::new(|r: &mut Chunked| sourcemap::SourceMap::from_reader(r).map(DecodedMap::Regular)),
        ),
        (
            "SourceMapIndex",
            Box::new(|| sourcemap::SourceMapIndex::from_slice(bytes).map(DecodedMap::Index)),
            Box::new(|r: &mut Chunked| sourcemap::SourceMapIndex::from_reader(r).map(DecodedMap::Index)),
        ),
        (
            "SourceMapHermes",
            Box::new(|| sourcemap::SourceMapHermes::from_slice(bytes).map(DecodedMap::Hermes)),
            Box::new(|r: &mut Chunked| sourcemap::SourceMapHermes::from_reader(r).map(DecodedMap::Hermes)),
        ),
    ];
    for (ty, from_slice, from_reader) in &typed {
        let s = dec_with(&format!("{ty}::from_slice"), from_slice)?;
        let mut rdr = Chunked { data: bytes, pos: 0, cuts, max_read, reads: 0 };
        let r = dec_with(&format!("{ty}::from_reader"), || from_reader(&mut rdr))?;
        let (so, ro) = (outcome(&s), outcome(&r));
        if so != ro {
            return Err(format!(
                "{ty}::from_slice is {} but {ty}::from_reader is {} (cuts {cuts:?}, max_read {max_read})",
                s.as_ref().map(|_| "Ok".to_string()).unwrap_or_else(|e| format!("Err({e})")),
                r.as_ref().map(|_| "Ok (or a different map)".to_string()).unwrap_or_else(|e| format!("Err({e})")),
            ));
        }
        let kind_matches = match (&by_slice, *ty) {
            (Ok(DecodedMap::Regular(_)), "SourceMap") | (Ok(DecodedMap::Index(_)), "SourceMapIndex") | (Ok(DecodedMap::Hermes(_)), "SourceMapHermes") => true,
            _ => false,
        };
        match (&so, kind_matches) {
            (Ok(x), true) => {
                if Ok(x) != a.as_ref() {
                    return Err(format!("{ty}::from_slice decodes to a different map than decode_slice"));
                }
            }
            (Err(()), false) => {}
            (Ok(_), false) => return Err(format!("{ty}::from_slice accepts a document that decode_slice {}", if by_slice.is_ok() { "decodes as another kind of map" } else { "rejects" })),
            (Err(()), true) => return Err(format!("{ty}::from_slice rejects a document that decode_slice decodes as that kind of map")),
        }
    }
    // detection predicates
    let ds = guard(|| is_sourcemap_slice(bytes)).map_err(|p| format!("is_sourcemap_slice: {p}"))?;
    let mut rdr = Chunked { data: bytes, pos: 0, cuts, max_read, reads: 0 };
    let dr = guard(|| is_sourcemap(&mut rdr)).map_err(|p| format!("is_sourcemap: {p}"))?;
    if ds != dr {
        return Err(format!("is_sourcemap_slice = {ds} but is_sourcemap(reader) = {dr} (cuts {cuts:?}, max_read {max_read})"));
    }
    // data URL of the same payload (plain form and the form the library itself writes)
    for preamble in ["data:application/json;base64,", "data:application/json;charset=utf-8;base64,"] {
        let url = format!("{preamble}{}", base64(bytes));
        let by_url = dec_with("decode_data_url", || decode_data_url(&url))?;
        match (&a, outcome(&by_url)) {
            (Err(()), Err(())) => {}
            (Ok(x), Ok(y)) if x.0 == y.0 => {}
            (x, y) => {
                return Err(format!(
                    "decode_data_url({preamble}<base64 payload>) is {} but decode_slice of the payload is {}",
                    if y.is_ok() { "Ok" } else { "Err" },
                    if x.is_ok() { "Ok (or a different map)" } else { "Err" }
                ))
            }
        }
    }
    Ok((a.is_ok(), reads))
}

fn check(c: &Case, obs: &mut Obs) -> Verdict {
    let (ok, reads) = match check_bytes(&c.bytes, &c.cuts, c.max_read) {
        Ok(r) => r,
        Err(e) => return Verdict::Fail(format!("{e}; input={}", String::from_utf8_lossy(&c.bytes[..c.bytes.len().min(300)]))),
    };
    // specific clauses
    let h = c.header_len;
    match c.ending {
        Ending::Lf | Ending::CrLf if c.body_valid => {
            ensure!(ok, "junk header ending in {:?} followed by a valid document is rejected", c.ending);
            // equal to the header-less decode
            let bare = &c.bytes[h..];
            let a = decode_slice(bare).ok().map(|m| obs_any(&m));
            let b = decode_slice(&c.bytes).ok().map(|m| obs_any(&m));
            ensure!(a.is_some() && a == b, "decode with junk header differs from decode of the bare document");
        }
        Ending::BareCrThenByte | Ending::CrInsideHeader => {
            ensure!(!ok, "a junk header with a bare \\r followed by another byte is accepted");
        }
        _ => {}
    }
    obs.class(match c.ending {
        Ending::NoHeader => "header:none",
        Ending::Lf => "header:\\n",
        Ending::CrLf => "header:\\r\\n",
        Ending::BareCrThenByte => "header:bare-\\r+byte",
        Ending::CrAtEof => "header:\\r-at-eof",
        Ending::Unterminated => "header:only/unterminated",
        Ending::CrInsideHeader => "header:\\r-inside-then-\\n",
        Ending::NotJunk => "first-line-not-junk",
    });
    obs.class(if ok { "outcome:ok" } else { "outcome:err" });
    obs.class_if(matches!(c.ending, Ending::Lf | Ending::CrLf) && c.bytes.get(h).map(|b| b")]}'".contains(b)).unwrap_or(false), "two-junk-lines");
    obs.class_if(h > 8192, "header-longer-than-bufreader");
    obs.class_if(c.bytes.len() - h > 8192, "body-longer-than-bufreader");
    obs.class_if(c.max_read == 1, "1-byte-reads");
    obs.class_if(reads >= 3, ">=3-reads");
    let cut_in_header = c.cuts.iter().any(|x| *x > 0 && *x < h);
    let cut_at_end = c.cuts.contains(&h);
    let cut_in_crlf = c.ending == Ending::CrLf && c.cuts.contains(&(h - 1));
    obs.class_if(cut_in_header, "cut-inside-header");
    obs.class_if(cut_at_end && h > 0, "cut-exactly-at-header-end");
    obs.class_if(cut_in_crlf, "cut-between-\\r-and-\\n");
    if h > 0 && c.body_valid && (cut_in_header || cut_in_crlf || c.max_read == 1) {
        obs.nontrivial();
    }
    Verdict::Pass
}

// --- generators ----------------------------------------------------------------------------

fn body() -> BoxedStrategy<(Vec<u8>, bool)> {
    let p = MMParams { max_tokens: 10, ranges: true, ..MMParams::regular(Tier::Quick) };
    let valid = prop_oneof![
        3 => doc_strategy(Tier::Quick, true).prop_map(|d| d.to_json_no_header()),
        2 => mm_strategy(p).prop_map(|m| m.to_doc().to_json_no_header()),
        1 => hermes_strategy(p).prop_map(|h| h.to_doc().to_json_no_header()),
        2 => index_strategy(MMParams { max_tokens: 6, ..p }, 1).prop_map(|i| i.to_json_no_header()),
    ];
    let lead = proptest::sample::select(vec!["", "", "", " ", "\t", "\n", " \n", "\r\n", "\u{feff}", "\u{feff} "]);
    prop_oneof![
        // (a byte order mark is not JSON white space: such a body is a document every path must refuse alike)
        6 => (lead, valid.clone()).prop_map(|(l, s)| (format!("{l}{s}").into_bytes(), !l.starts_with('\u{feff}'))),
        // a second junk-looking line in front of the document: only ONE header line is stripped, what follows is
        // not JSON, and every path (decoders and the two is_sourcemap forms) has to say so alike
        1 => (proptest::sample::select(vec![")]}'\n", ")]}'\r\n", ")\n", "}]\n", "'\n)]}'\n", ")]}',\n"]), valid.clone())
            .prop_map(|(l, s)| (format!("{l}{s}").into_bytes(), false)),
        // a complete document followed by something else (both paths have to refuse it alike)
        1 => (valid.clone(), proptest::sample::select(vec!["]", "}", " {}", "\n{\"version\":3,\"sources\":[],\"names\":[],\"mappings\":\"\"}", "\n//# sourceMappingURL=x.map", "\n)]}'\n", "x", "\u{0}", " \n\t "])).prop_map(|(s, tail)| {
            let b = format!("{s}{tail}").into_bytes();
            let ok = decode_slice(&b).is_ok();
            (b, ok)
        }),
        // JSON that is fine as JSON but wrong as a source map document (types, duplicate keys, arrays)
        1 => proptest::sample::select(vec![
            r#"{"version":"3","sources":["a.js"],"names":[],"mappings":"AAAA"}"#,
            r#"{"version":3.0,"sources":["a.js"],"names":[],"mappings":"AAAA"}"#,
            r#"{"version":-3,"sources":["a.js"],"names":[],"mappings":"AAAA"}"#,
            r#"{"version":4294967296,"sources":["a.js"],"names":[],"mappings":"AAAA"}"#,
            r#"{"version":3,"version":3,"sources":["a.js"],"names":[],"mappings":"AAAA"}"#,
            r#"{"version":3,"sources":["a.js"],"sources":["b.js"],"names":[],"mappings":"AAAA"}"#,
            r#"{"version":3,"sources":["a.js"],"names":[],"mappings":"AAAA","mappings":"AAAA"}"#,
            r#"[3,null,["a.js"],null,null,null,[],null,"AAAA"]"#,
            r#"{"version":null,"file":"x","sources":["a.js"],"names":[],"mappings":"AAAA"}"#,
            r#"{"version":3,"sources":"a.js","names":[],"mappings":"AAAA"}"#,
            r#"{"version":3,"sources":["a.js"],"names":[],"mappings":null}"#,
            r#"{"version":3,"sections":{}}"#,
            r#"{"version":3,"sections":[],"mappings":"AAAA","sources":[],"names":[]}"#,
            r#"3"#,
            r#""mappings""#,
            r#"null"#,
        ]).prop_map(|s| {
            let b = s.as_bytes().to_vec();
            let ok = decode_slice(&b).is_ok();
            (b, ok)
        }),
        1 => (valid.clone(), any::<u16>()).prop_map(|(s, at)| {
            let b = s.into_bytes();
            let n = idx16(at, b.len() + 1);
            // a cut that leaves a complete document is still "valid"; decide by decoding
            let t = b[..n].to_vec();
            let ok = decode_slice(&t).is_ok();
            (t, ok)
        }),
        1 => (valid, any::<u16>(), any::<u8>()).prop_map(|(s, at, v)| {
            let mut b = s.into_bytes();
            if !b.is_empty() {
                let i = idx16(at, b.len());
                b[i] = v;
            }
            let ok = decode_slice(&b).is_ok() && !b.first().map(|c| b")]}'".contains(c)).unwrap_or(false);
            (b, ok)
        }),
        1 => vec(any::<u8>(), 0..12).prop_map(|b| {
            let ok = decode_slice(&b).is_ok() && !b.first().map(|c| b")]}'".contains(c)).unwrap_or(false);
            (b, ok)
        }),
        1 => Just((vec![], false)),
        // a document larger than the reader's 8 KiB buffer (several refills while parsing)
        1 => (9_000usize..30_000, any::<bool>()).prop_map(|(n, first)| {
            let big = "0123456789abcdef".repeat(n / 16 + 1);
            let s = if first {
                format!("{{\"sourcesContent\":[\"{big}\"],\"version\":3,\"sources\":[\"a.js\"],\"names\":[],\"mappings\":\"AAAA;AACA\"}}")
            } else {
                format!("{{\"version\":3,\"sources\":[\"a.js\"],\"names\":[],\"mappings\":\"AAAA;AACA\",\"sourcesContent\":[\"{big}\"]}}")
            };
            (s.into_bytes(), true)
        }),
    ]
    .boxed()
}

fn header() -> BoxedStrategy<(Vec<u8>, Ending)> {
    let start = prop_oneof![
        9 => proptest::sample::select(vec![b')', b']', b'}', b'\'']),
        1 => proptest::sample::select(vec![b'>', b'(', b'[', b'x', b'/', b' ', 0xefu8]),
    ];
    let byte = prop_oneof![3 => 0x20u8..0x7f, 1 => proptest::sample::select(vec![b')', b']', b'}', b'\'', b'{', b'"', 0u8, 0xffu8, b'\t'])];
    let garbage = prop_oneof![
        4 => vec(byte.clone(), 0..12),
        1 => (8190usize..8200).prop_map(|n| vec![b'x'; n]),
    ];
    (start, garbage, vec(byte, 1..4), 0u8..8)
        .prop_map(|(s, g, g2, e)| {
            let junk = b")]}'".contains(&s);
            let mut h = vec![s];
            h.extend(g.into_iter().filter(|b| *b != b'\n' && *b != b'\r'));
            let mut ending = match e {
                0 | 1 => {
                    h.push(b'\n');
                    Ending::Lf
                }
                2 | 3 => {
                    h.extend_from_slice(b"\r\n");
                    Ending::CrLf
                }
                4 => {
                    h.push(b'\r');
                    Ending::BareCrThenByte
                }
                5 | 6 => {
                    h.push(b'\r');
                    h.extend(g2.into_iter().filter(|b| *b != b'\n' && *b != b'\r'));
                    if *h.last().unwrap() == b'\r' {
                        h.push(b'}');
                    }
                    h.push(b'\n');
                    Ending::CrInsideHeader
                }
                _ => Ending::Unterminated,
            };
            if !junk && ending != Ending::Unterminated {
                ending = Ending::NotJunk;
            }
            if !junk && ending == Ending::Unterminated {
                ending = Ending::NotJunk;
                h.push(b'\n');
            }
            (h, ending)
        })
        .boxed()
}

fn assemble(header: Option<(Vec<u8>, Ending)>, body: (Vec<u8>, bool), cut_sel: Vec<u16>, forced: u8, max_read: usize) -> Case {
    let (mut bytes, header_len, mut ending) = match header {
        None => (vec![], 0, Ending::NoHeader),
        Some((h, e)) => {
            let n = h.len();
            (h, n, e)
        }
    };
    let (b, mut body_valid) = body;
    bytes.extend_from_slice(&b);
    if ending == Ending::BareCrThenByte && b.is_empty() {
        ending = Ending::CrAtEof;
    }
    if ending == Ending::BareCrThenByte && b.first() == Some(&b'\n') {
        ending = Ending::CrLf;
    }
    if matches!(ending, Ending::Unterminated | Ending::CrAtEof | Ending::BareCrThenByte | Ending::CrInsideHeader | Ending::NotJunk) {
        body_valid = false;
    }
    if ending == Ending::NoHeader && bytes.first().map(|c| b")]}'".contains(c)).unwrap_or(false) {
        // a garbage body that happens to start like a junk header: no specific clause applies
        body_valid = false;
    }
    let n = bytes.len();
    let mut cuts: Vec<usize> = cut_sel.iter().map(|s| idx16(*s, n + 1)).collect();
    if header_len > 0 {
        if forced & 1 == 1 {
            cuts.push(header_len - 1);
        }
        if forced & 2 == 2 {
            cuts.push(header_len);
        }
        if forced & 4 == 4 {
            cuts.push((header_len + 1).min(n));
        }
        if forced & 8 == 8 && header_len >= 2 {
            cuts.push(header_len - 2);
        }
    }
    cuts.retain(|c| *c > 0 && *c < n);
    cuts.sort();
    cuts.dedup();
    Case { bytes, header_len, cuts, max_read, ending, body_valid }
}

fn triples(_t: Tier) -> BoxedStrategy<Case> {
    (
        proptest::option::weighted(0.75, header()),
        body(),
        vec(any::<u16>(), 0..6),
        any::<u8>(),
        prop_oneof![3 => Just(0usize), 2 => Just(1usize), 2 => 2usize..9, 1 => 100usize..9000],
    )
        .prop_map(|(h, b, cs, forced, k)| assemble(h, b, cs, forced, k))
        .boxed()
}

/// Small documents with *every* chunking (all subsets of the n-1 interior cut points).
fn all_chunkings(t: Tier) -> Box<dyn Iterator<Item = Case>> {
    let max = t.pick(16usize, 22);
    let docs: Vec<(&'static [u8], usize, Ending, bool)> = vec![
        (b")\n{}", 2, Ending::Lf, true),
        (b"]x\r\n{}", 4, Ending::CrLf, true),
        (b"}'\r{}", 3, Ending::BareCrThenByte, false),
        (b"')]}\n[1]", 5, Ending::Lf, false),
        (b")]}'\r\n{}", 6, Ending::CrLf, true),
        (b")]}'\r", 5, Ending::CrAtEof, false),
        (b")]}' junk", 9, Ending::Unterminated, false),
        (b"{\"mappings\":\"A\"}", 0, Ending::NoHeader, true),
        (b")\r\n\r\n{\"names\":[]}", 3, Ending::CrLf, true),
        (b"'\n\n {\"version\":3}", 2, Ending::Lf, true),
        (b")\n{\"mappings\":\"\"}", 2, Ending::Lf, true),
        (b"]x\r\n{\"sections\":[]}", 4, Ending::CrLf, true),
        (b"}'\r{\"mappings\":\"\"}", 3, Ending::BareCrThenByte, false),
        (b")]}'\r\n{\"mappings\":\"A\"}", 6, Ending::CrLf, true),
        (b")\rx\n{}", 4, Ending::CrInsideHeader, false),
        (b")]}'\r}\n{}", 7, Ending::CrInsideHeader, false),
        (b"}\r {}", 2, Ending::BareCrThenByte, false),
        (b">\n{}", 2, Ending::NotJunk, false),
        (b"]\r\r\n{}", 2, Ending::BareCrThenByte, false),
    ];
    Box::new(docs.into_iter().filter(move |d| d.0.len() <= max + 1).flat_map(move |(bytes, h, ending, valid)| {
        let bytes: Vec<u8> = bytes.to_vec();
        let n = bytes.len();
        (0u32..(1u32 << (n - 1))).map(move |mask| {
            let cuts: Vec<usize> = (1..n).filter(|i| mask & (1 << (i - 1)) != 0).collect();
            Case { bytes: bytes.clone(), header_len: h, cuts, max_read: 0, ending, body_valid: valid }
        })
    }))
}

/// libFuzzer entry: byte 0 = number of chunk-size bytes (<= 16), then the sizes, then the
/// document. Aborts on a violation.
pub fn fuzz_one(data: &[u8]) {
    if data.is_empty() {
        return;
    }
    let n = (data[0] as usize % 17).min(data.len() - 1);
    let sizes = &data[1..1 + n];
    let doc = &data[1 + n..];
    let mut cuts = vec![];
    let mut pos = 0usize;
    for s in sizes {
        pos += *s as usize % 64 + 1;
        if pos < doc.len() {
            cuts.push(pos);
        }
    }
    let max_read = if data[0] >= 128 { 1 } else { 0 };
    if let Err(e) = check_bytes(doc, &cuts, max_read) {
        eprintln!("C12 violation: {e}");
        std::process::abort();
    }
}

fn wrap_fuzz(b: Vec<u8>) -> Case {
    if b.is_empty() {
        return Case { bytes: vec![], header_len: 0, cuts: vec![], max_read: 0, ending: Ending::NoHeader, body_valid: false };
    }
    let n = (b[0] as usize % 17).min(b.len() - 1);
    let doc = b[1 + n..].to_vec();
    let mut cuts = vec![];
    let mut pos = 0usize;
    for s in &b[1..1 + n] {
        pos += *s as usize % 64 + 1;
        if pos < doc.len() {
            cuts.push(pos);
        }
    }
    Case { bytes: doc, header_len: 0, cuts, max_read: if b[0] >= 128 { 1 } else { 0 }, ending: Ending::NoHeader, body_valid: false }
}

fn subs() -> Vec<Sub> {
    let ex = enum_sub("all_chunkings_small", all_chunkings, check);
    let run = ex.run;
    vec![
        Sub {
            run: Box::new(move |ctx| {
                run(ctx);
                if !ctx.failed() {
                    ctx.note_exhaustive("every chunking (all subsets of interior cut points) of the small documents (<= 17 bytes quick, <= 23 thorough) with all header/newline kinds");
                }
            }),
            ..ex
        },
        gen_sub("triples", triples, |t| t.pick(120_000, 1_000_000), check),
        super::fuzzrun::fuzz_sub::<Case>("fuzz", "c12", check, wrap_fuzz),
    ]
}

pub const DEF: PropertyDef = PropertyDef {
    id: "C12",
    rule: "triples: document (valid regular/Hermes/index, truncated, one corrupted byte, short garbage, empty) x junk header (none; each of \
           ) ] } ' + arbitrary garbage incl. further junk characters; ending \\n, \\r\\n, bare \\r + byte, \\r at EOF, none; longer than the \
           8 KiB BufReader) x chunking (generated cut offsets, always offered at header end -2/-1/0/+1; reads of at most 1, 2..8, 100..9000 \
           bytes or unlimited). all_chunkings_small: every subset of cut points of 10 small documents. Oracle: decode(reader) and \
           decode_slice both Err or both Ok with equal observation and equal re-serialised bytes; is_sourcemap(reader) == is_sourcemap_slice; \
           decode_data_url(base64 of the bytes) has the same outcome; header+\\n/\\r\\n+valid document == bare document; bare \\r + byte is \
           rejected. Typed entry points (SourceMap / SourceMapIndex / SourceMapHermes from_slice vs from_reader under the same chunking, each against decode_slice) and DecodedMap::from_reader; bodies with a leading byte order mark; JSON keys written with unicode escapes. Non-trivial = junk header, valid document behind it, and a cut strictly inside the header / inside \\r\\n or 1-byte reads",
    assumptions: &["the harness reader never returns 0 before the end of the data (a 0-length read means EOF to any io::Read consumer)"],
    subs,
};
