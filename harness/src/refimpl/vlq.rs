//! Independent base64-VLQ codec written from the Source Map v3 format description.
//! Shares no code with `sourcemap::vlq`. Cross-checked against the third-party `vlq`
//! crate in C11.

pub const ALPHABET: &[u8; 64] =
    b"ABCDEFGHIJKLMNOPQRSTUVWXYZabcdefghijklmnopqrstuvwxyz0123456789+/";

pub fn digit_of(b: u8) -> Option<u8> {
    match b {
        b'A'..=b'Z' => Some(b - b'A'),
        b'a'..=b'z' => Some(b - b'a' + 26),
        b'0'..=b'9' => Some(b - b'0' + 52),
        b'+' => Some(62),
        b'/' => Some(63),
        _ => None,
    }
}

/// Appends the canonical VLQ text of `v` (|v| < 2^63).
pub fn write(out: &mut String, v: i64) {
    let mag: u128 = (v as i128).unsigned_abs();
    let mut u: u128 = (mag << 1) | u128::from(v < 0);
    loop {
        let mut d = (u & 31) as u8;
        u >>= 5;
        if u != 0 {
            d |= 32;
        }
        out.push(ALPHABET[d as usize] as char);
        if u == 0 {
            break;
        }
    }
}

pub fn write_all(vals: &[i64]) -> String {
    let mut s = String::new();
    for &v in vals {
        write(&mut s, v);
    }
    s
}

/// Writes `v` padded with redundant continuation digits to exactly `digits` base64 digits
/// (non-canonical but legal for `digits <= 13`).
pub fn write_padded(out: &mut String, v: i64, digits: usize) {
    let mag: u128 = (v as i128).unsigned_abs();
    let mut u: u128 = (mag << 1) | u128::from(v < 0);
    for i in 0..digits {
        let mut d = (u & 31) as u8;
        u >>= 5;
        if i + 1 < digits {
            d |= 32;
        }
        out.push(ALPHABET[d as usize] as char);
    }
}

#[derive(Debug, Clone, PartialEq, Eq)]
pub enum RefErr {
    /// character outside the base64 alphabet
    Foreign(char),
    /// the last value has its continuation bit set
    Unterminated,
    /// no value at all
    Empty,
    /// a single value has a 14th digit
    TooLong,
}

/// One decoded value together with what the standard leaves open.
#[derive(Debug, Clone, PartialEq, Eq)]
pub struct RefVal {
    /// exact value (sign-magnitude reading), always representable: 13 digits = 65 bits
    pub value: i128,
    pub digits: usize,
}

/// Independent reader. Returns the values (exact, in i128) or the first error in reading
/// order. A value is "too long" as soon as it has a 14th digit.
pub fn read(text: &str) -> Result<Vec<RefVal>, RefErr> {
    let mut out = vec![];
    let mut acc: u128 = 0;
    let mut digits = 0usize;
    for ch in text.chars() {
        let d = if ch.is_ascii() {
            digit_of(ch as u8)
        } else {
            None
        };
        let Some(d) = d else {
            return Err(RefErr::Foreign(ch));
        };
        digits += 1;
        if digits > 13 {
            return Err(RefErr::TooLong);
        }
        acc |= u128::from(d & 31) << (5 * (digits - 1));
        if d & 32 == 0 {
            let mag = (acc >> 1) as i128;
            let value = if acc & 1 == 1 { -mag } else { mag };
            out.push(RefVal { value, digits });
            acc = 0;
            digits = 0;
        }
    }
    if digits != 0 {
        return Err(RefErr::Unterminated);
    }
    if out.is_empty() {
        return Err(RefErr::Empty);
    }
    Ok(out)
}
