import subprocess, shutil, re
SRC='/root/scratch/c20/mut/repo/src/ram_bundle.rs'
orig=open('/repo/src/ram_bundle.rs').read()
muts={
 'M1 drop id>=count': ("        if id >= self.module_count {\n            return Err(Error::InvalidRamBundleIndex);\n        }\n", ""),
 'M2 length-1 before zero test': ("        if module_entry.length == 0 {\n            return Err(Error::InvalidRamBundleEntry);\n        }\n\n        // Strip the trailing NULL byte\n        let module_length = (module_entry.length - 1) as usize;",
     "        let module_length = (module_entry.length.wrapping_sub(1)) as usize;\n        if module_length == 0 {\n            return Err(Error::InvalidRamBundleEntry);\n        }\n"),
 'M2b wrapping length-1, no zero test': ("        if module_entry.length == 0 {\n            return Err(Error::InvalidRamBundleEntry);\n        }\n\n        // Strip the trailing NULL byte\n        let module_length = (module_entry.length - 1) as usize;",
     "        let module_length = (module_entry.length.wrapping_sub(1)) as usize;\n"),
 'M3 startup offset without table': ("        let startup_code_offset = std::mem::size_of::<RamBundleHeader>()\n            + module_count * std::mem::size_of::<ModuleEntry>();", "        let startup_code_offset = std::mem::size_of::<RamBundleHeader>();"),
 'M4 iterator stops at empty slot': ("get_module(next_id) {\n                Ok(None) => continue,", "get_module(next_id) {\n                Ok(None) => return None,"),
 'M5 magic big-endian in is_ram_bundle_slice': ("        .pread_with::<RamBundleHeader>(0, scroll::LE)\n        .ok()", "        .pread_with::<RamBundleHeader>(0, scroll::BE)\n        .ok()"),
 'M6 magic big-endian in parse': ("let header = bytes.pread_with::<RamBundleHeader>(0, scroll::LE)?;", "let header = bytes.pread_with::<RamBundleHeader>(0, scroll::BE)?;"),
 'M7 keeps the trailing NUL': ("let module_length = (module_entry.length - 1) as usize;", "let module_length = module_entry.length as usize;"),
 'M8 module offset relative to file start': ("let module_global_offset = self.startup_code_offset + module_entry.offset as usize;", "let module_global_offset = module_entry.offset as usize;"),
 'M9 unchecked slice for module': ("let data = self.bytes.pread_with(module_global_offset, module_length)?;", "let data = &self.bytes[module_global_offset..module_global_offset + module_length];"),
 'M10 empty = offset==0 only': ("self.offset == 0 && self.length == 0", "self.length == 0"),
 'M11 parse does not check magic': ("        if !header.is_valid_magic() {\n            return Err(Error::InvalidRamBundleMagic);\n        }\n", ""),
 'M12 id > count': ("if id >= self.module_count {", "if id > self.module_count {"),
}
import sys
for name,(a,b) in muts.items():
    if name.split()[0] not in ('M1','M12'): continue
    assert orig.count(a)==1, name
    open(SRC,'w').write(orig.replace(a,b))
    r=subprocess.run('cd /root/scratch/c20/mut/harness && CARGO_NET_OFFLINE=true cargo build --release --offline 2>&1 | grep -E "^error" -A8 | head -20', shell=True, capture_output=True, text=True)
    if r.stdout.strip():
        print(name,'BUILD ERROR',r.stdout); continue
    r=subprocess.run('/root/scratch/c20/mut/target/release/smcheck C20 --tier quick', shell=True, capture_output=True, text=True)
    lines=[l for l in r.stdout.splitlines() if l.startswith('failure') or l.startswith('C20 ')]
    print('==',name,'exit',r.returncode)
    for l in lines: print('   ',l[:400])
open(SRC,'w').write(orig)
