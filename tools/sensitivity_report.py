#!/usr/bin/env python3
"""Writes /verif/SENSITIVITY.md from SENSITIVITY.json."""
import json
d = json.load(open("/verif/SENSITIVITY.json"))
d = [m for m in d if m["name"] != "c10-break-gt"]
out = ["# Sensitivity mutants (tools/mutants_table.py, run by tools/mutant.py in the quick tier)", "",
       "Each mutant is a small edit of /repo that compiles; it is applied to the working tree, the quick tier of the named",
       "checks is run, and the tree is restored. `caught by` lists the checks that exited 1 with a VIOLATION line.", "",
       "| mutant | what | checks run | caught by |", "|---|---|---|---|"]
for m in d:
    out.append(f"| {m['name']} | {m.get('what','')} | {', '.join(m['checks'])} | {', '.join(m['caught_by']) if m['caught_by'] else '**missed**'} |")
n = sum(1 for m in d if m["caught"])
out += ["", f"{n} of {len(d)} mutants caught. Removed as behaviourally equivalent: `c10-break-gt` (`>=` -> `>` in the 'no more originals' break of adjust_mappings).", ""]
open("/verif/SENSITIVITY.md", "w").write("\n".join(out))
print(n, len(d))
