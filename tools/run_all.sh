#!/bin/bash
# Runs every check of MANIFEST.json in the given tier (default quick) and validates the evidence.
tier=${1:-quick}
cd "$(dirname "$0")/.."
rc=0
for id in $(python3 -c "import json;print(' '.join(c['property_id'] for c in json.load(open('MANIFEST.json'))['checks']))"); do
    start=$(date +%s)
    out=$(./check $id --tier $tier 2>&1); code=$?
    end=$(date +%s)
    echo "$id exit=$code $((end-start))s $(echo "$out" | grep -c '^KNOWN-FINDING') known; $(echo "$out" | tail -1)"
    echo "$out" | grep -E '^(VIOLATION|INCONCLUSIVE|failure)' | cut -c1-300
    [ $code -ne 0 ] && rc=1
done
python3-vt - <<'PY'
import json,jsonschema,glob
sch=json.load(open('/root/.vp/EVIDENCE.schema.json'))
for f in sorted(glob.glob('evidence/*.json')):
    try:
        jsonschema.validate(json.load(open(f)), sch)
    except Exception as e:
        print('EVIDENCE INVALID', f, str(e)[:200])
print('evidence validated')
PY
exit $rc
