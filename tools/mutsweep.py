#!/usr/bin/env python3
"""Automated mutation sweep: mechanical single-token mutants of /repo/src (operators below),
each applied to a private copy of the repository, filtered by the repository's own test suite
(compiles + all tests pass) and then run against the quick tiers of the checks (most relevant
first, all twenty for survivors). Nothing is ever applied to /repo itself.

  tools/mutsweep.py gen [--seed N] [--max N] [--files a.rs,b.rs]   -> mutsweep/queue.jsonl
  tools/mutsweep.py run --workers K [--limit N]                     -> mutsweep/results.jsonl (appended)
  tools/mutsweep.py report                                          -> mutsweep/REPORT.md

Workers live in /root/scratch/mut/w<k>/{repo,verif} (removed by `clean`). A mutant counts as
 * `nocompile` / `tests_fail`  - not a candidate (the brief asks for changes that compile and pass the tests);
 * `caught`     - some quick check exits 1 with a VIOLATION line;
 * `inconclusive` - a check exits 2 (watchdog / build) and none exits 1;
 * `survived`   - all twenty quick checks exit 0: to be analysed by hand (equivalent mutant, behaviour
                  outside every listed property, or a gap of the machinery).
"""
import hashlib, json, os, random, re, shutil, subprocess, sys, threading, time

VERIF = os.path.dirname(os.path.dirname(os.path.abspath(__file__)))
OUT = os.path.join(VERIF, "mutsweep")
SCRATCH = "/root/scratch/mut"
REPO = "/repo"
ALL = ["C%02d" % i for i in range(1, 21)]
RELEVANT = {
    "vlq.rs": ["C11", "C06", "C02", "C03", "C01", "C05"],
    "decoder.rs": ["C02", "C06", "C12", "C01", "C07", "C08", "C14", "C05", "C18"],
    "encoder.rs": ["C03", "C01", "C07", "C14", "C13", "C05", "C18"],
    "types.rs": ["C04", "C07", "C08", "C09", "C10", "C13", "C01", "C03", "C17", "C02", "C05", "C18", "C14"],
    "builder.rs": ["C13", "C09", "C01", "C03", "C10", "C08", "C04"],
    "hermes.rs": ["C14", "C09", "C01", "C05", "C02"],
    "sourceview.rs": ["C15", "C16", "C17", "C05", "C18"],
    "detector.rs": ["C18", "C12", "C05"],
    "utils.rs": ["C19", "C04", "C17", "C09", "C05"],
    "js_identifiers.rs": ["C17", "C05"],
    "jsontypes.rs": ["C01", "C02", "C03", "C05", "C14"],
    "ram_bundle.rs": ["C20", "C05"],
}

REPL = [
    (r" < ", " <= "), (r" <= ", " < "), (r" > ", " >= "), (r" >= ", " > "), (r" == ", " != "), (r" != ", " == "),
    (r" && ", " || "), (r" \|\| ", " && "),
    (r" \+ ", " - "), (r" - ", " + "), (r" \+= ", " -= "), (r" -= ", " += "),
    (r"\bif !", "if "), (r"\bwhile !", "while "),
    (r"\btrue\b", "false"), (r"\bfalse\b", "true"),
    (r"\.min\(", ".max("), (r"\.max\(", ".min("),
    (r"\.\.=", ".."),
    (r"saturating_sub", "wrapping_sub"), (r"saturating_add", "wrapping_add"),
    (r"\.is_some\(\)", ".is_none()"), (r"\.is_none\(\)", ".is_some()"),
    (r"\.is_empty\(\)", ".len() == 1"),
    (r"\.first\(\)", ".last()"), (r"\.last\(\)", ".first()"),
    (r" & ", " | "), (r" \| ", " & "), (r" << ", " >> "), (r" >> ", " << "), (r" \* ", " / "), (r" / ", " * "), (r" % ", " / "),
    (r"\.rev\(\)", ""), (r"\.skip\(1\)", ""),
]
TABLE_ROW = re.compile(r"^\s+-?\d+,\s*$")
FN = re.compile(r"^(\s*)(pub(\([a-z]+\))? )?(const )?fn (\w+)")
BODY_FOR = [
    (r"^bool$", ["true", "false"]),
    (r"^Option<.*>$", ["None"]),
    (r"^(u8|u16|u32|u64|usize|i32|i64)$", ["0", "1"]),
    (r"^String$", ["String::new()"]),
    (r"^&(\'\w+ )?str$", ['""']),
    (r"^Vec<.*>$", ["vec![]"]),
    (r"^&(\'\w+ )?\[.*\]$", ["&[]"]),
    (r"^Result<\(\)>$", ["Ok(())"]),
    (r"^Result<bool>$", ["Ok(true)", "Ok(false)"]),
    (r"^Result<Option<.*>>$", ["Ok(None)"]),
    (r"^$", [""]),
]


def fn_bodies(lines, end):
    """(first body line, last body line, indent, return type, name) of every fn whose body spans whole lines."""
    out = []
    i = 0
    while i < end:
        m = FN.match(lines[i])
        if not m:
            i += 1
            continue
        j = i
        sig = lines[j]
        while "{" not in lines[j] and ";" not in lines[j] and j + 1 < end:
            j += 1
            sig += " " + lines[j].strip()
        if "{" not in lines[j] or lines[j].rstrip().endswith("}"):
            i = j + 1
            continue
        depth = 0
        k = j
        found = None
        while k < len(lines):
            code = re.sub(r'"(\\.|[^"\\])*"', '""', lines[k])
            code = re.sub(r"'(\\.|[^'\\])'", "' '", code).split("//")[0]
            depth += code.count("{") - code.count("}")
            if depth == 0:
                found = k
                break
            k += 1
        if found is None or found <= j + 1:
            i = j + 1
            continue
        rt = ""
        mm = re.search(r"\)\s*->\s*(.*?)\s*(where\b.*)?\{\s*$", sig)
        if mm:
            rt = mm.group(1).strip()
        out.append((j + 1, found - 1, m.group(1), rt, m.group(5)))
        i = j + 1
    return out

DELETE_STMT = re.compile(r"^\s+(?!let\b|return\b|pub\b|fn\b|use\b|const\b|static\b)[A-Za-z_\*][\w\.\[\]\(\)\*]*\s*(=|\+=|-=|\|=|&=)\s[^=].*;\s*$")
DELETE_CALL = re.compile(r"^\s+[\w\.\[\]\(\)\*]+\.(push|push_str|insert|sort\w*|clear|truncate|extend\w*|set\w*|dedup\w*|pop|resize|reserve|retain|reverse|remove)\(.*\);\s*$")
DELETE_KW = re.compile(r"^\s+(continue|break);\s*$")
INT = re.compile(r"(?<![\w\.\"'#])(\d{1,5})(?![\w\.\"'])")


def code_region(path):
    """(lines, end) - end = index of the first line of the trailing test module, if any."""
    lines = open(path).read().split("\n")
    end = len(lines)
    for i, l in enumerate(lines):
        if l.strip() in ("#[cfg(test)]",) or re.match(r"^\s*mod tests? \{", l) or l.strip() == "#[test]":
            end = i
            break
    return lines, end


def in_string(line, pos):
    return line[:pos].count('"') % 2 == 1


def gen_file(fname):
    path = os.path.join(REPO, "src", fname)
    lines, end = code_region(path)
    muts = []
    depth_skip = False
    for i in range(end):
        l = lines[i]
        s = l.strip()
        if not s or s.startswith("//") or s.startswith("#[") or s.startswith("use ") or s.startswith("///") or s.startswith("#!["):
            continue
        if "cfg(sourcemap_verif)" in s or "verif_hooks" in s:
            continue
        code = l.split("//")[0] if '"' not in l else l
        for pat, rep in REPL:
            for m in re.finditer(pat, code):
                if in_string(code, m.start()):
                    continue
                new = code[:m.start()] + rep + code[m.end():]
                muts.append((i, l, new, f"{m.group(0).strip()} -> {rep.strip()}"))
        for m in INT.finditer(code):
            if in_string(code, m.start()):
                continue
            if TABLE_ROW.match(code) and (i % 12) != 0:
                continue
            n = int(m.group(1))
            for d in (1, -1):
                if n + d < 0:
                    continue
                new = code[:m.start()] + str(n + d) + code[m.end():]
                muts.append((i, l, new, f"literal {n} -> {n + d}"))
        if DELETE_STMT.match(code) or DELETE_CALL.match(code) or DELETE_KW.match(code):
            muts.append((i, l, "", "delete statement"))
    out = []
    for (i, old, new, what) in muts:
        mid = hashlib.sha1(f"{fname}:{i}:{old}:{new}".encode()).hexdigest()[:10]
        out.append({"id": mid, "file": fname, "line": i + 1, "nlines": 1, "old": old, "new": new, "op": what})
    for (a, b, indent, rt, name) in fn_bodies(lines, end):
        if name in ("fmt", "yield_point", "set_yield_hook") or "verif" in name:
            continue
        old = "\n".join(lines[a:b + 1])
        for pat, bodies in BODY_FOR:
            if re.match(pat, rt):
                for body in bodies:
                    if old.strip() == body:
                        continue
                    new = f"{indent}    {body}"
                    mid = hashlib.sha1(f"{fname}:{a}:{old}:{new}".encode()).hexdigest()[:10]
                    out.append({"id": mid, "file": fname, "line": a + 1, "nlines": b - a + 1, "old": old, "new": new,
                                "op": f"body of fn {name} -> {body or '(nothing)'}"})
                break
    return out


def cmd_gen(args):
    seed = int(args[args.index("--seed") + 1]) if "--seed" in args else 1
    mx = int(args[args.index("--max") + 1]) if "--max" in args else 10 ** 9
    files = args[args.index("--files") + 1].split(",") if "--files" in args else sorted(RELEVANT)
    os.makedirs(OUT, exist_ok=True)
    done = set()
    rp = os.path.join(OUT, "results.jsonl")
    if os.path.exists(rp):
        done = {json.loads(l)["id"] for l in open(rp)}
    allm = []
    for f in files:
        ms = gen_file(f)
        print(f, len(ms))
        allm += ms
    rnd = random.Random(seed)
    rnd.shuffle(allm)
    allm = [m for m in allm if m["id"] not in done][:mx]
    with open(os.path.join(OUT, "queue.jsonl"), "w") as fh:
        for m in allm:
            fh.write(json.dumps(m) + "\n")
    print("queued", len(allm), "(already done:", len(done), ")")


def sh(cmd, cwd=None, timeout=1200):
    try:
        return subprocess.run(cmd, shell=True, capture_output=True, text=True, cwd=cwd, timeout=timeout)
    except subprocess.TimeoutExpired:
        class R:
            returncode = 124
            stdout = ""
            stderr = "timeout"
        return R()


def setup_worker(k):
    w = f"{SCRATCH}/w{k}"
    shutil.rmtree(w, ignore_errors=True)
    os.makedirs(w)
    sh(f"git -C {REPO} worktree prune")
    sh(f"cp -r {REPO} {w}/repo && rm -rf {w}/repo/target {w}/repo/.git && cd {w}/repo && git init -q && git add -A && git -c user.email=a@b -c user.name=x commit -qm base")
    os.makedirs(f"{w}/verif")
    src = os.environ.get("MUTSWEEP_VERIF", VERIF)  # (a worktree of an earlier commit of /verif: "before" runs)
    for d in ("harness", "corpus", "regress", "known_findings.json", "check"):
        sh(f"cp -r {src}/{d} {w}/verif/{d}")
    sh(f"rm -rf {w}/verif/harness/target {w}/verif/harness/fuzz/target")
    ct = f"{w}/verif/harness/Cargo.toml"
    s = open(ct).read().replace('path = "/repo"', f'path = "{w}/repo"')
    open(ct, "w").write(s)
    cc = f"{w}/verif/harness/.cargo/config.toml"
    s = "\n".join(l for l in open(cc).read().split("\n") if not l.startswith("target-dir"))
    open(cc, "w").write(s)
    r = sh(f"cd {w}/repo && cargo test --offline --all-features 2>&1 | tail -3; cd {w}/verif && ./check C19 --tier quick | tail -1", timeout=3600)
    print(f"worker {k} ready:", r.stdout.strip().split("\n")[-1])
    return w


LOCK = threading.Lock()


def run_mutant(w, m):
    res = dict(m)
    path = f"{w}/repo/src/{m['file']}"
    lines = open(path).read().split("\n")
    n = m.get("nlines", 1)
    if "\n".join(lines[m["line"] - 1:m["line"] - 1 + n]) != m["old"]:
        res["status"] = "stale"
        return res
    lines[m["line"] - 1:m["line"] - 1 + n] = [m["new"]]
    open(path, "w").write("\n".join(lines))
    t0 = time.time()
    try:
        feat = "--all-features" if m["file"] == "ram_bundle.rs" else ""
        r = sh(f"ulimit -v 6000000; cargo test --offline {feat} 2>&1 | grep -E '^test result|FAILED|^error|panicked' | head -20", cwd=f"{w}/repo", timeout=600)
        o = r.stdout
        if "error" in o and "test result" not in o:
            res["status"] = "nocompile"
            return res
        if r.returncode == 124:
            res["status"] = "tests_fail"
            res["detail"] = "test suite timed out"
            return res
        if "FAILED" in o or "panicked" in o or "test result: ok" not in o:
            res["status"] = "tests_fail"
            return res
        order = RELEVANT.get(m["file"], []) + [c for c in ALL if c not in RELEVANT.get(m["file"], [])]
        res["checks"] = {}
        status = "survived"
        for c in order:
            r = sh(f"ulimit -v 24000000; VERIF_THREADS=4 ./check {c} --tier quick", cwd=f"{w}/verif", timeout=900)
            viol = [l for l in r.stdout.splitlines() if l.startswith("VIOLATION")]
            why = [l for l in r.stdout.splitlines() if l.startswith("failure in") or l.startswith("regress case") or l.startswith("INCONCLUSIVE")]
            res["checks"][c] = r.returncode
            if r.returncode == 1 and viol:
                status = "caught"
                res["caught_by"] = c
                res["reason"] = why[0][:300] if why else ""
                break
            if r.returncode != 0:
                status = "inconclusive"
                res.setdefault("inconclusive", []).append([c, r.returncode, (why[0][:200] if why else r.stdout[-200:])])
        res["status"] = status
        return res
    finally:
        res["wall_s"] = round(time.time() - t0, 1)
        sh("git checkout -q -- .", cwd=f"{w}/repo")


def cmd_run(args):
    K = int(args[args.index("--workers") + 1]) if "--workers" in args else 4
    limit = int(args[args.index("--limit") + 1]) if "--limit" in args else 10 ** 9
    queue = [json.loads(l) for l in open(os.path.join(OUT, "queue.jsonl"))][:limit]
    rp = os.path.join(OUT, "results.jsonl")
    done = {json.loads(l)["id"] for l in open(rp)} if os.path.exists(rp) else set()
    queue = [m for m in queue if m["id"] not in done]
    print("to run:", len(queue))
    it = iter(queue)

    def worker(k):
        w = setup_worker(k)
        while True:
            with LOCK:
                m = next(it, None)
            if m is None or os.path.exists(os.path.join(OUT, "STOP")):
                break
            res = run_mutant(w, m)
            with LOCK:
                with open(rp, "a") as fh:
                    fh.write(json.dumps(res) + "\n")
                print(f"[w{k}] {res['status']:12s} {m['file']}:{m['line']} {m['op']} {res.get('caught_by', '')} {res.get('wall_s')}s", flush=True)
        shutil.rmtree(w, ignore_errors=True)

    ts = [threading.Thread(target=worker, args=(k,)) for k in range(K)]
    for t in ts:
        t.start()
        time.sleep(2)
    for t in ts:
        t.join()


def cmd_report(args):
    """REPORT.md: first pass (harness as it stood when the sweep started) and the re-run of its survivors with
    the current harness; survivors pruned from the re-run as known-equivalent / out of scope are listed with the reason."""
    rp = os.path.join(OUT, "results.jsonl")
    rs = {}
    for l in open(rp):
        r = json.loads(l)
        rs[r["id"]] = r
    first = json.load(open(os.path.join(OUT, "first_pass_status.json"))) if os.path.exists(os.path.join(OUT, "first_pass_status.json")) else {}
    pruned = json.load(open(os.path.join(OUT, "pruned_equivalent.json"))) if os.path.exists(os.path.join(OUT, "pruned_equivalent.json")) else {}
    allm = {}
    qp = os.path.join(OUT, "all_mutants.jsonl")
    if os.path.exists(qp):
        for l in open(qp):
            m = json.loads(l)
            allm[m["id"]] = m
    ids = set(first) | set(rs)
    def fstat(i):
        return first.get(i) or rs[i]["status"]
    def nstat(i):
        if i in rs:
            return rs[i]["status"]
        return "survived (not re-run: " + pruned.get(i, "pending") + ")"
    cand = [i for i in ids if fstat(i) in ("caught", "survived", "inconclusive")]
    from collections import Counter
    c1 = Counter(fstat(i) for i in ids)
    lines = ["# Mutation sweep (tools/mutsweep.py)", "",
             f"{len(ids)} mechanical single-edit mutants of /repo/src. First pass (harness as it stood when the sweep started): "
             + ", ".join(f"{k} {v}" for k, v in sorted(c1.items())) + ".",
             f"Candidates (compile and pass the repository's own tests): {len(cand)}; caught by a quick check in the first pass: {c1.get('caught', 0)}.", ""]
    now_caught = [i for i in cand if i in rs and rs[i]["status"] == "caught"]
    still = [i for i in cand if not (i in rs and rs[i]["status"] == "caught")]
    lines.append(f"After the additions the survivors led to (DESIGN.md §11.8) and a re-run of the survivors with the current harness: {len(now_caught)} of {len(cand)} candidates caught; "
                 f"{len(still)} remain, each triaged below (equivalent mutant, or behaviour no listed property speaks about).")
    lines += ["", "| file | candidates | caught (first pass) | caught (now) | remaining |", "|---|---|---|---|---|"]
    def fileof(i):
        return (rs.get(i) or allm.get(i) or {}).get("file", "?")
    for f in sorted({fileof(i) for i in cand}):
        c = [i for i in cand if fileof(i) == f]
        lines.append(f"| {f} | {len(c)} | {sum(fstat(i) == 'caught' for i in c)} | {sum(i in now_caught for i in c)} | {sum(i in still for i in c)} |")
    lines += ["", "## Survivors of the first pass that the current harness catches", "", "| where | operator | line | caught by |", "|---|---|---|---|"]
    for i in sorted(now_caught, key=lambda i: (rs[i]["file"], rs[i]["line"])):
        if fstat(i) != "caught":
            r = rs[i]
            lines.append(f"| {r['file']}:{r['line']} | {r['op']} | `{r['old'].strip().splitlines()[0][:80]}` | {r.get('caught_by', '')} |")
    lines += ["", "## Remaining survivors", "", "| where | operator | line | status | triage |", "|---|---|---|---|---|"]
    tri = json.load(open(os.path.join(OUT, "triage.json"))) if os.path.exists(os.path.join(OUT, "triage.json")) else {}
    for i in sorted(still, key=lambda i: (fileof(i), (rs.get(i) or allm.get(i) or {}).get("line", 0))):
        r = rs.get(i) or allm.get(i) or {"file": "?", "line": 0, "op": "?", "old": ""}
        why = tri.get(i) or pruned.get(i) or ""
        lines.append(f"| {r['file']}:{r['line']} | {r['op']} | `{r['old'].strip().splitlines()[0][:80] if r['old'].strip() else ''}` | {nstat(i)[:40]} | {why} |")
    open(os.path.join(OUT, "REPORT.md"), "w").write("\n".join(lines) + "\n")
    print("\n".join(lines[:8]))


if __name__ == "__main__":
    a = sys.argv[1:]
    {"gen": cmd_gen, "run": cmd_run, "report": cmd_report}[a[0]](a[1:])
