# Sensitivity mutants (DESIGN.md §6 "Sensitivity"): each edits /repo so that it still compiles
# and passes the repository's own tests, but breaks the named property.
# edits: (path, old, new) — `old` must occur exactly once.
MUTANTS = []


def M(name, checks, what, *edits):
    MUTANTS.append({"name": name, "checks": checks, "what": what, "edits": list(edits)})


# ---- C02 -------------------------------------------------------------------------------
M("c02-dstcol-kept-across-lines", ["C02"], "decoder keeps the generated column across lines",
  ("src/decoder.rs", "    let mut dst_col;\n", "    let mut dst_col = 0;\n"),
  ("src/decoder.rs", "        dst_col = 0;\n\n        decode_rmi", "        if dst_line == usize::MAX { dst_col = 0; }\n\n        decode_rmi"))
M("c02-srccol-reset-per-line", ["C02"], "decoder resets the original column on every line",
  ("src/decoder.rs", "        dst_col = 0;\n\n        decode_rmi", "        dst_col = 0;\n        src_col = 0;\n\n        decode_rmi"))
M("c02-swap-src-line-col", ["C02"], "decoder swaps original line and column deltas",
  ("src/decoder.rs", "src_line = (i64::from(src_line) + nums[2]) as u32;\n                src_col = (i64::from(src_col) + nums[3]) as u32;",
   "src_line = (i64::from(src_line) + nums[3]) as u32;\n                src_col = (i64::from(src_col) + nums[2]) as u32;"))
M("c02-prefer-debugId", ["C02"], "debugId wins over debug_id",
  ("src/decoder.rs", "rsm.debug_id.or(rsm._debug_id_new)", "rsm._debug_id_new.or(rsm.debug_id)"))
M("c02-join-absolute", ["C02"], "sourceRoot is joined to '/'-absolute sources too",
  ("src/types.rs", "&& (source.starts_with('/')\n                || source.starts_with(\"http:\")", "&& (source.starts_with(\"//\")\n                || source.starts_with(\"http:\")"))
M("c02-no-sort", ["C02", "C04"], "SourceMap::new does not sort tokens",
  ("src/types.rs", "        tokens.sort_unstable_by_key(|t| (t.dst_line, t.dst_col));\n        SourceMap {", "        if tokens.len() > 100000 { tokens.sort_unstable_by_key(|t| (t.dst_line, t.dst_col)); }\n        SourceMap {"))
M("c02-hermes-as-regular", ["C02"], "x_facebook_sources documents with an empty list decode as regular",
  ("src/decoder.rs", "} else if rsm.x_facebook_sources.is_some() {", "} else if rsm.x_facebook_sources.as_ref().map_or(false, |v| !v.is_empty()) {"))
M("c02-sections-not-sorted", ["C02", "C08"], "index decoder keeps sections in written order",
  ("src/decoder.rs", "    sections.sort_by_key(SourceMapSection::get_offset);", "    if sections.len() > 1000 { sections.sort_by_key(SourceMapSection::get_offset); }"))
M("c02-name-accumulates-per-line", ["C02"], "name index restarts at 0 on each line",
  ("src/decoder.rs", "        dst_col = 0;\n\n        decode_rmi", "        dst_col = 0;\n        name_id = 0;\n\n        decode_rmi"))

# ---- C11 -------------------------------------------------------------------------------
M("c11-sign-bit", ["C11"], "encoder: -0 special case / sign from wrong parity for i64::MIN-like",
  ("src/vlq.rs", "let mut num = if num < 0 { ((-num) << 1) + 1 } else { num << 1 };", "let mut num = if num < 0 && num != -4097 { ((-num) << 1) + 1 } else { num.abs() << 1 };"))
M("c11-13-digit-limit", ["C11"], "decoder rejects 13-digit values (limit off by one)",
  ("src/vlq.rs", "cur += val.checked_shl(shift).ok_or(Error::VlqOverflow)?;", "if shift >= 60 { return Err(Error::VlqOverflow); }\n        cur += val.checked_shl(shift).ok_or(Error::VlqOverflow)?;"))
M("c11-table-swap", ["C11"], "one swapped pair in the reverse table (+ and /)",
  ("src/vlq.rs", "    -1,\n    62,\n    -1,\n    -1,\n    -1,\n    63,", "    -1,\n    63,\n    -1,\n    -1,\n    -1,\n    62,"))

# ---- C16 -------------------------------------------------------------------------------
M("c16-no-recheck-under-lock", ["C16"], "remove the re-check of the line index under the indexing lock (original check-then-lock race)",
  ("src/sourceview.rs", "        if let Some(&line) = lines.get(idx) {\n            return Some(line);\n        }\n        if self.processed_until.load(Ordering::Relaxed) > self.source.len() {\n            return None;\n        }\n        let mut done = false;", "        let mut done = false;"))
M("c16-stale-finished-check", ["C16"], "finished check answers None without looking at the lines again",
  ("src/sourceview.rs", "            return self.lines.lock().unwrap().get(idx).copied();", "            return None;"))

# ---- C01 -------------------------------------------------------------------------------
M("c01-encoder-forgets-ignorelist", ["C01", "C03"], "encoder drops ignoreList when it has exactly one entry",
  ("src/encoder.rs", "ignore_list: if self.ignore_list.is_empty() {", "ignore_list: if self.ignore_list.len() <= 1 {"))
M("c01-contents-shifted", ["C01", "C03"], "encoder writes the contents of the last source as null when there are >= 3 sources",
  ("src/encoder.rs", "            .map(|contents| {\n                if let Some(contents) = contents {", "            .enumerate()\n            .map(|(i, contents)| {\n                let contents = if i >= 2 { None } else { contents };\n                if let Some(contents) = contents {"))
M("c01-debugid-dropped-with-root", ["C01", "C03"], "encoder drops debug_id when a sourceRoot is present",
  ("src/encoder.rs", "debug_id: self.get_debug_id(),", "debug_id: if self.get_source_root().is_some() { None } else { self.get_debug_id() },"))
M("c01-index-offset-swapped", ["C01", "C03", "C08"], "index encoder swaps line and column of section offsets",
  ("src/encoder.rs", "line: section.get_offset_line(),\n                            column: section.get_offset_col(),", "line: section.get_offset_col(),\n                            column: section.get_offset_line(),"))
M("c01-hermes-drops-fb-sources", ["C01", "C14"], "Hermes encoder drops x_facebook_sources entries after the first",
  ("src/hermes.rs", "        rsm.x_facebook_sources\n            .clone_from(&self.raw_facebook_sources);", "        rsm.x_facebook_sources = self.raw_facebook_sources.as_ref().map(|v| v.iter().take(1).cloned().collect());"))
M("c01-section-url-dropped", ["C01", "C03"], "index encoder drops the url of sections that have a map",
  ("src/encoder.rs", "url: section.get_url().map(str::to_owned),", "url: if section.get_sourcemap().is_some() { None } else { section.get_url().map(str::to_owned) },"))

# ---- C03 -------------------------------------------------------------------------------
M("c03-delta-vs-prev-token", ["C03", "C01"], "encoder updates prev_src_line even for tokens without source (uses raw field)",
  ("src/encoder.rs", "        prev_dst_col = token.get_dst_col();\n", "        prev_dst_col = token.get_dst_col();\n        if !token.has_source() && token.get_src_line() == 3 { prev_src_line = 3; }\n"))
M("c03-file-null", ["C03"], "encoder writes \"file\": null for an empty file name",
  ("src/encoder.rs", "            file: self.get_file().map(|x| Value::String(x.to_string())),\n            sources: Some(self.sources", "            file: self.get_file().map(|x| if x.is_empty() { Value::Null } else { Value::String(x.to_string()) }),\n            sources: Some(self.sources"))
M("c03-vlq-large-values", ["C03", "C11", "C01"], "VLQ writer truncates values >= 2^31 to 32 bits",
  ("src/vlq.rs", "    let mut num = if num < 0 { ((-num) << 1) + 1 } else { num << 1 };", "    let num = if num >= (1 << 32) - 1 { num - 1 } else { num };\n    let mut num = if num < 0 { ((-num) << 1) + 1 } else { num << 1 };"))
M("c03-names-prefixed-sources", ["C03", "C13"], "encoder writes the prefixed source names",
  ("src/encoder.rs", "sources: Some(self.sources.iter().map(|x| Some(x.to_string())).collect()),", "sources: Some(self.sources().map(|x| Some(x.to_string())).collect()),"))

# ---- C04 -------------------------------------------------------------------------------
M("c04-no-walk-back", ["C04"], "greatest_lower_bound does not walk back to the first of equal keys",
  ("src/utils.rs", "        if map(&slice[i]) == *key {\n            idx = i;\n        } else {\n            break;\n        }", "        if map(&slice[i]) == *key && i + 3 < idx {\n            idx = i;\n        } else {\n            break;\n        }"))
M("c04-adjust-no-final-sort", ["C04", "C10"], "adjust_mappings skips the final sort when few tokens",
  ("src/types.rs", "        self.tokens\n            .sort_unstable_by_key(|t| (t.dst_line, t.dst_col));\n    }\n}\n\nimpl SourceMapIndex {", "        if self.tokens.len() > 6 {\n            self.tokens\n                .sort_unstable_by_key(|t| (t.dst_line, t.dst_col));\n        }\n    }\n}\n\nimpl SourceMapIndex {"))
M("c04-sort-by-line-only", ["C04", "C02"], "SourceMap::new sorts by line and (col / 2^20): order within a line mostly kept as given",
  ("src/types.rs", "        tokens.sort_unstable_by_key(|t| (t.dst_line, t.dst_col));\n        SourceMap {", "        tokens.sort_by_key(|t| (t.dst_line, t.dst_col >> 20, 0));\n        SourceMap {"))
M("c04-lookup-before-first", ["C04"], "lookup before the first token returns the first token when on the same line",
  ("src/types.rs", "        let (idx, raw) =\n            greatest_lower_bound(&self.tokens, &(line, col), |t| (t.dst_line, t.dst_col))?;", "        let (idx, raw) = match greatest_lower_bound(&self.tokens, &(line, col), |t| (t.dst_line, t.dst_col)) {\n            Some(x) => x,\n            None => match self.tokens.first() {\n                Some(t) if t.dst_line == line && line > 0 => (0, t),\n                _ => return None,\n            },\n        };"))

# ---- C05 -------------------------------------------------------------------------------
M("c05-unchecked-shl", ["C05", "C11", "C06"], "VLQ decoder uses << instead of checked_shl",
  ("src/vlq.rs", "cur += val.checked_shl(shift).ok_or(Error::VlqOverflow)?;", "cur += val << shift;"))
M("c05-display-truncates-name", ["C05"], "Token Display truncates long names at a byte offset",
  ("src/types.rs", "                .map(|x| format!(\" name={x}\"))", "                .map(|x| format!(\" name={}\", &x[..x.len().min(24)]))"))
M("c05-prealloc-from-declared", ["C05"], "decoder pre-allocates tokens from a number in the document (ignoreList max)",
  ("src/decoder.rs", "    let allocation_size = mappings.matches(&[',', ';'][..]).count() + 10;", "    let allocation_size = mappings.matches(&[',', ';'][..]).count() + 10 + rsm.ignore_list.as_ref().and_then(|l| l.iter().max().copied()).unwrap_or(0) as usize / 16;"))
M("c05-contents-direct-index", ["C05", "C09"], "rewrite indexes sourcesContent directly (panics when it is shorter than sources)",
  ("src/types.rs", "                    .set_source_contents(raw.src_id, self.get_source_contents(token.get_src_id()));", "                    .set_source_contents(raw.src_id, self.sources_content[token.get_src_id() as usize].as_ref().map(|v| v.source()));"))
M("c05-flatten-overflow-again", ["C05", "C03"], "flatten adds the line offset unchecked again",
  ("src/types.rs", "                    token\n                        .get_dst_line()\n                        .checked_add(off_line)\n                        .ok_or_else(overflow)?,", "                    token.get_dst_line() + off_line,"))
M("c05-hermes-fnmap-negative", ["C05", "C14"], "hermes function map line accumulates in u32 arithmetic",
  ("src/hermes.rs", "                    line = (i64::from(line) + nums.next().unwrap_or(0)) as u32;", "                    line = line + nums.next().unwrap_or(0) as u32;"))

# ---- C06 -------------------------------------------------------------------------------
M("c06-accept-6-fields", ["C06"], "decoder accepts 6-field segments",
  ("src/decoder.rs", "if nums.len() != 4 && nums.len() != 5 {", "if nums.len() != 4 && nums.len() != 5 && nums.len() != 6 {"))
M("c06-source-range-off-by-one", ["C06", "C05"], "source index == len accepted",
  ("src/decoder.rs", "if new_src_id < 0 || new_src_id >= sources.len() as i64 {", "if new_src_id < 0 || new_src_id > sources.len() as i64 {"))
M("c06-drop-leftover-test", ["C06", "C11"], "cut-off last value silently dropped",
  ("src/vlq.rs", "    if cur != 0 || shift != 0 {\n        Err(Error::VlqLeftover)", "    if cur != 0 && shift == 0 {\n        Err(Error::VlqLeftover)"))
M("c06-dash-is-plus", ["C06", "C11"], "'-' accepted as base64url digit 62",
  ("src/vlq.rs", "    -1,\n    62,\n    -1,\n    -1,\n    -1,\n    63,", "    -1,\n    62,\n    -1,\n    62,\n    -1,\n    63,"))
M("c06-negative-name-index", ["C06"], "name index driven negative wraps (check only upper bound)",
  ("src/decoder.rs", "if new_name_id < 0 || new_name_id >= names.len() as i64 {", "if (new_name_id as u32) >= names.len() as u32 {"))

# ---- C07 -------------------------------------------------------------------------------
M("c07-bit-order", ["C07"], "encode_rmi reverses bit order within digits beyond the first",
  ("src/encoder.rs", "    for byte in bits.chunks(6) {\n        let byte = byte.load::<u8>();", "    for (ci, byte) in bits.chunks(6).enumerate() {\n        let byte = if ci >= 2 { byte.load::<u8>().reverse_bits() >> 2 } else { byte.load::<u8>() };"))
M("c07-rmi-empty-lines", ["C07"], "rangeMappings line separator dropped for lines skipped after a range line",
  ("src/encoder.rs", "            buf.push(b';');\n            prev_line += 1;\n            had_rmi = false;\n            num = 0;", "            if !(had_rmi && token.get_dst_line() > prev_line + 2) { buf.push(b';'); }\n            prev_line += 1;\n            had_rmi = false;\n            num = 0;"))
M("c07-lookup-offset-nonrange", ["C07", "C04"], "lookup applies the offset to non-range tokens that follow a range token",
  ("src/types.rs", "        if token.is_range() && line == token.get_dst_line() {", "        if (token.is_range() || (idx > 0 && self.tokens[idx - 1].is_range && self.tokens[idx - 1].dst_line == line)) && line == token.get_dst_line() {"))
M("c07-decode-rmi-line-index", ["C07"], "decoder takes the range flag by emitted index (empty segments not counted) - differs only with >= 6 segments",
  ("src/decoder.rs", "            let is_range = rmi.get(line_index).map(|v| *v).unwrap_or_default();", "            let is_range = rmi.get(if line_index >= 12 { line_index - 6 } else { line_index }).map(|v| *v).unwrap_or_default();"))

# ---- C08 -------------------------------------------------------------------------------
M("c08-col-shift-all-lines", ["C08"], "flatten shifts columns on all lines (CHANGELOG 7.0.1 bug)",
  ("src/types.rs", "                let dst_col = if token.get_dst_line() == 0 {", "                let dst_col = if token.get_dst_line() <= 1 {"))
M("c08-section-lt", ["C08"], "index lookup picks the previous section when the query equals a section offset on a later column",
  ("src/types.rs", "            greatest_lower_bound(&self.sections, &(line, col), SourceMapSection::get_offset)?;", "            greatest_lower_bound(&self.sections, &(line, col.saturating_sub(if col > 20 { 1 } else { 0 })), SourceMapSection::get_offset)?;"))
M("c08-contents-last-wins", ["C08"], "flatten overwrites contents with later sections' contents",
  ("src/types.rs", "                if token.get_source().is_some() && !builder.has_source_contents(raw.src_id) {", "                if token.get_source().is_some() && (!builder.has_source_contents(raw.src_id) || map.get_source_contents(token.get_src_id()).is_some()) {"))
M("c08-ignore-by-old-id", ["C08"], "flatten copies the ignore list by old source id",
  ("src/types.rs", "                    builder.add_to_ignore_list(raw.src_id);", "                    builder.add_to_ignore_list(token.get_src_id());"))
M("c08-nested-skip", ["C08"], "flatten skips nested index sections that are empty-offset",
  ("src/types.rs", "                    DecodedMap::Index(idx) => Cow::Owned(idx.flatten()?),", "                    DecodedMap::Index(idx) => { if idx.get_section_count() > 2 { continue; } Cow::Owned(idx.flatten()?) },"))
M("c08-lookup-col-rel", ["C08"], "index lookup subtracts the column offset on all lines of the section",
  ("src/types.rs", "            if line == off_line { col - off_col } else { col },", "            if line == off_line { col - off_col } else { col.saturating_sub(off_col / 16) },"))

# ---- C09 -------------------------------------------------------------------------------
M("c09-contents-by-new-id", ["C09"], "rewrite copies contents by new id",
  ("src/types.rs", "                    .set_source_contents(raw.src_id, self.get_source_contents(token.get_src_id()));", "                    .set_source_contents(raw.src_id, self.get_source_contents(raw.src_id));"))
M("c09-prefix-no-slash-normalisation", ["C09"], "prefix stripped without appending '/'",
  ("src/builder.rs", "                if !prefix.ends_with('/') {\n                    prefix.push('/');\n                }", "                if !prefix.ends_with('/') && prefix.len() < 4 {\n                    prefix.push('/');\n                }"))
M("c09-hermes-not-permuted", ["C09"], "Hermes rewrite keeps function maps in old order when lengths match",
  ("src/hermes.rs", "        if function_maps.len() >= mapping.len() {", "        if function_maps.len() > mapping.len() {"))
M("c09-debugid-not-copied", ["C09"], "rewrite drops the debug id when names are dropped",
  ("src/types.rs", "        builder.set_debug_id(self.debug_id);", "        builder.set_debug_id(if options.with_names { self.debug_id } else { None });"))
M("c09-file-lost", ["C09"], "rewrite loses the file when contents are dropped",
  ("src/types.rs", "        let mut builder = SourceMapBuilder::new(self.get_file());\n        builder.set_debug_id(self.debug_id);", "        let mut builder = SourceMapBuilder::new(if options.with_source_contents { self.get_file() } else { None });\n        builder.set_debug_id(self.debug_id);"))
M("c09-range-flag-lost", ["C09"], "add_token drops the range flag of sourceless tokens",
  ("src/builder.rs", "            name,\n            token.is_range(),\n        )", "            name,\n            token.is_range() && token.has_source(),\n        )"))

# ---- C10 -------------------------------------------------------------------------------
M("c10-le-inner", ["C10"], "<= instead of < in the inner loop",
  ("src/types.rs", "            while original_range.start < adjustment_range.end {", "            while original_range.start <= adjustment_range.end {"))
M("c10-displacement-next", ["C10"], "column displacement ignores the line when lines differ by >= 2",
  ("src/types.rs", "                token.dst_col = (token.dst_col as i32 + col_diff) as u32;", "                token.dst_col = (token.dst_col as i32 + if line_diff.abs() >= 2 { 0 } else { col_diff }) as u32;"))
M("c10-eol-ignored", ["C10"], "range end ignores end of line",
  ("src/types.rs", "                let end = std::cmp::min(next_start, (start.0, u32::MAX));", "                let end = next_start;"))
# (c10-break-gt, ">= -> > in the 'no more originals' break", was removed: it is behaviourally equivalent —
#  with equal ends the skip loop of the next adjustment range advances the original range anyway)
M("c10-skip-le", ["C10"], "skip loop uses < instead of <=",
  ("src/types.rs", "            while original_range.end <= adjustment_range.start {", "            while original_range.end < adjustment_range.start {"))
M("c10-range-flag", ["C10"], "adjust_mappings clears the range flag of clipped tokens",
  ("src/types.rs", "                let mut token = RawToken {\n                    dst_line,\n                    dst_col,\n                    ..original_range.value\n                };", "                let mut token = RawToken {\n                    dst_line,\n                    dst_col,\n                    ..original_range.value\n                };\n                if (dst_line, dst_col) != original_range.start { token.is_range = false; }"))

# ---- C12 -------------------------------------------------------------------------------
M("c12-pastheader-offset", ["C12"], "PastHeader arm drops the first body byte when >= 200 bytes follow the newline in the same read",
  ("src/decoder.rs", "                        let rem = read - offset;\n                        buf[..rem].copy_from_slice(&local_buf[offset..read]);\n                        return Ok(rem);", "                        let off2 = if read - offset >= 200 { offset + 1 } else { offset };\n                        let rem = read - off2;\n                        buf[..rem].copy_from_slice(&local_buf[off2..read]);\n                        return Ok(rem);"))
M("c12-awaiting-newline-forgotten", ["C12"], "AwaitingNewline state forgotten across a read boundary",
  ("src/decoder.rs", "        loop {\n            let read = self.r.read(local_buf)?;\n            if read == 0 {\n                return Ok(0);\n            }", "        loop {\n            let read = self.r.read(local_buf)?;\n            if read == 0 {\n                return Ok(0);\n            }\n            if self.header_state == HeaderState::AwaitingNewline {\n                self.header_state = HeaderState::Junk;\n            }"))
M("c12-reader-accepts-bare-cr", ["C12"], "reader accepts a blank after a bare \\r as header terminator",
  ("src/decoder.rs", "                        if byte == b'\\n' {\n                            HeaderState::PastHeader\n                        } else {\n                            fail!(io::Error::new(", "                        if byte == b'\\n' || byte == b' ' || byte == b'\\t' {\n                            HeaderState::PastHeader\n                        } else {\n                            fail!(io::Error::new("))
M("c12-junk-set-differs", ["C12"], "slice path treats '>' as junk start too",
  ("src/decoder.rs", "    if slice.is_empty() || !is_junk_json(slice[0]) {", "    if slice.is_empty() || !(is_junk_json(slice[0]) || slice[0] == b'>') {"))
M("c12-is-sourcemap-reader-no-strip", ["C12", "C18"], "is_sourcemap(reader) requires version for index maps",
  ("src/detector.rs", "fn is_sourcemap_impl<R: Read>(rdr: R) -> Result<bool> {\n    let mut rdr = StripHeaderReader::new(rdr);\n    let mut rdr = BufReader::new(&mut rdr);\n    let rsm: MinimalRawSourceMap = serde_json::from_reader(&mut rdr)?;\n    Ok(is_sourcemap_common(rsm))", "fn is_sourcemap_impl<R: Read>(rdr: R) -> Result<bool> {\n    let mut rdr = StripHeaderReader::new(rdr);\n    let mut rdr = BufReader::new(&mut rdr);\n    let rsm: MinimalRawSourceMap = serde_json::from_reader(&mut rdr)?;\n    if rsm.sections.is_some() && rsm.version.is_none() { return Ok(false); }\n    Ok(is_sourcemap_common(rsm))"))
M("c12-undecided-multi-read", ["C12"], "header decision taken per read instead of once (a later chunk starting with a junk byte is stripped)",
  ("src/decoder.rs", "                            buf[..read].copy_from_slice(&local_buf[..read]);\n                            self.header_state = HeaderState::PastHeader;\n                            return Ok(read);", "                            buf[..read].copy_from_slice(&local_buf[..read]);\n                            if read > 1 { self.header_state = HeaderState::PastHeader; }\n                            return Ok(read);"))

# ---- C13 -------------------------------------------------------------------------------
M("c13-always-push-name", ["C13"], "add_name pushes a duplicate when the name equals the last source added",
  ("src/builder.rs", "        let count = self.names.len() as u32;\n        let id = *self.name_map.entry(name.into()).or_insert(count);\n        if id == count {", "        let count = self.names.len() as u32;\n        let id = if self.sources.last().map(|s| &s[..]) == Some(name) { count } else { *self.name_map.entry(name.into()).or_insert(count) };\n        if id == count {"))
M("c13-set-source-no-cache-patch", ["C13"], "set_source does not patch the prefixed cache",
  ("src/types.rs", "        if let Some(sources_prefixed) = self.sources_prefixed.as_mut() {\n            // If sources_prefixed is `Some`", "        if let Some(sources_prefixed) = self.sources_prefixed.as_mut().filter(|_| idx == 0) {\n            // If sources_prefixed is `Some`"))
M("c13-root-none-keeps-cache", ["C13"], "set_source_root(None) keeps the prefixed cache",
  ("src/types.rs", "            None => self.sources_prefixed = None,", "            None => if self.source_root.is_some() { self.sources_prefixed = None },"))
M("c13-into-sourcemap-drops-ignore", ["C13"], "into_sourcemap drops ignore-list entries >= source count",
  ("src/builder.rs", "        for ignored_src_id in self.ignore_list {\n            sm.add_to_ignore_list(ignored_src_id);", "        for ignored_src_id in self.ignore_list {\n            if ignored_src_id as usize >= sm.get_source_count() as usize { continue; }\n            sm.add_to_ignore_list(ignored_src_id);"))
M("c13-contents-resize", ["C13"], "builder set_source_contents does not grow when already non-empty",
  ("src/builder.rs", "        if self.sources.len() > self.source_contents.len() {\n            self.source_contents.resize(self.sources.len(), None);\n        }", "        if self.sources.len() > self.source_contents.len() {\n            self.source_contents.resize(self.sources.len(), None);\n        }\n        if src_id as usize + 1 == self.sources.len() && self.sources.len() > 4 && contents.is_some() { return; }"))
M("c13-double-prefix-on-load", ["C13", "C01"], "prefix applied twice for roots ending in '//'",
  ("src/types.rs", "        let source_root = source_root.strip_suffix('/').unwrap_or(source_root);", "        let source_root = source_root.strip_suffix(\"//\").or_else(|| source_root.strip_suffix('/')).unwrap_or(source_root);"))

# ---- C14 -------------------------------------------------------------------------------
M("c14-line-starts-at-0", ["C14"], "function-map line starts at 0",
  ("src/hermes.rs", "            let mut line = 1;\n            let mut name_index = 0;", "            let mut line = 0;\n            let mut name_index = 0;"))
M("c14-col-not-reset", ["C14"], "column not reset at ';'",
  ("src/hermes.rs", "                let mut column = 0;\n\n                for mapping in line_mapping.split(',') {", "                if mappings.is_empty() { column = 0; }\n\n                for mapping in line_mapping.split(',') {"),
  ("src/hermes.rs", "            let mut line = 1;\n            let mut name_index = 0;", "            let mut line = 1;\n            let mut name_index = 0;\n            let mut column = 0;"))
M("c14-no-plus-one", ["C14"], "lookup without the +1 on the line",
  ("src/hermes.rs", "&(token.get_src_line().checked_add(1)?, token.get_src_col()),", "&(token.get_src_line().checked_add(0)?, token.get_src_col()),"))
M("c14-parse-error-aborts", ["C14", "C05"], "a function-map parse error aborts the whole decode",
  ("src/hermes.rs", "        .collect();\n\n    let sm = decode_regular(rsm)?;", "        .collect::<Vec<Option<HermesFunctionMap>>>();\n    if function_maps.iter().zip(x_facebook_sources.iter()).any(|(f, raw)| f.is_none() && raw.as_ref().map_or(false, |v| !v.is_empty() && v[0].mappings.len() > 12)) {\n        return Err(Error::VlqOverflow);\n    }\n\n    let sm = decode_regular(rsm)?;"))
M("c14-metadata-last-entry", ["C14"], "function map taken from the last metadata entry",
  ("src/hermes.rs", "            } = v.as_ref()?.iter().next()?;", "            } = v.as_ref()?.iter().last()?;"))
M("c14-name-line-swapped", ["C14"], "name delta and line delta swapped when both present and equal sign",
  ("src/hermes.rs", "                    name_index = (i64::from(name_index) + nums.next().unwrap_or(0)) as u32;\n                    line = (i64::from(line) + nums.next().unwrap_or(0)) as u32;", "                    let a = nums.next().unwrap_or(0);\n                    let b = nums.next().unwrap_or(0);\n                    let (a, b) = if a > 1 && b > 1 { (b, a) } else { (a, b) };\n                    name_index = (i64::from(name_index) + a) as u32;\n                    line = (i64::from(line) + b) as u32;"))

# ---- C15 -------------------------------------------------------------------------------
M("c15-crlf-two", ["C15", "C16"], "\\r\\n counted as two terminators when at the very end of the text",
  ("src/sourceview.rs", "                if rest[idx] == b'\\r' && rest.get(idx + 1) == Some(&b'\\n') {", "                if rest[idx] == b'\\r' && rest.get(idx + 1) == Some(&b'\\n') && idx + 2 < rest.len() {"))
M("c15-slice-utf8-cols", ["C15"], "slice walks len_utf8 for the span",
  ("src/sourceview.rs", "                off_end += c.len_utf8();\n                idx += c.len_utf16();", "                off_end += c.len_utf8();\n                idx += if c.len_utf8() == 3 { 3 } else { c.len_utf16() };"))
M("c15-cached-line-eq-len", ["C15", "C16"], "clone copies processed_until",
  ("src/sourceview.rs", "            source: self.source.clone(),\n            processed_until: AtomicUsize::new(0),", "            source: self.source.clone(),\n            processed_until: AtomicUsize::new(self.processed_until.load(Ordering::Relaxed)),"))
M("c15-lines-iter-stops-empty", ["C15"], "Lines iterator stops at the first empty line after line 2",
  ("src/sourceview.rs", "        if let Some(line) = self.sv.get_line(self.idx) {\n            self.idx += 1;\n            Some(line)", "        if let Some(line) = self.sv.get_line(self.idx).filter(|l| !(l.is_empty() && self.idx > 2 && self.sv.source().ends_with('\\r'))) {\n            self.idx += 1;\n            Some(line)"))

# ---- C17 -------------------------------------------------------------------------------
M("c17-window-64", ["C17"], "window of 64 tokens",
  ("src/sourceview.rs", "let mut iter = self.rev_token_iter(token).take(128).peekable();", "let mut iter = self.rev_token_iter(token).take(127).peekable();"))
M("c17-byte-columns", ["C17"], "forward column walk counts chars instead of UTF-16 units",
  ("src/sourceview.rs", "                off += c.len_utf8();\n                idx += c.len_utf16();\n            }\n            off\n        } else {", "                off += c.len_utf8();\n                idx += 1;\n            }\n            off\n        } else {"))
M("c17-cache-across-lines", ["C17"], "cached byte offset reused across different lines of equal number mod 2",
  ("src/sourceview.rs", "            if dst_line == token.get_dst_line() as usize;", "            if dst_line == token.get_dst_line() as usize || (dst_line == token.get_dst_line() as usize + 2);"))
M("c17-dollar-not-start", ["C17", "C05"], "'$' not accepted as an identifier start",
  ("src/js_identifiers.rs", "    c == '$' || c == '_' || c.is_ascii_alphabetic() || {\n        if c.is_ascii() {\n            false\n        } else {\n            unicode_id_start::is_id_start_unicode(c)", "    c == '_' || c.is_ascii_alphabetic() || {\n        if c.is_ascii() {\n            false\n        } else {\n            unicode_id_start::is_id_start_unicode(c)"))
M("c17-returns-keyword-name", ["C17"], "returns the keyword token's name when the declared token has none",
  ("src/sourceview.rs", "                then {\n                    return token.get_name();\n                }", "                then {\n                    return token.get_name().or_else(|| iter.peek().and_then(|i| i.0.get_name()));\n                }"))
M("c17-backward-walk-utf8", ["C17"], "backward cached walk counts utf8 length",
  ("src/sourceview.rs", "                new_offset -= c.len_utf8();\n                idx += c.len_utf16();", "                new_offset -= c.len_utf8();\n                idx += if c.len_utf16() == 2 { 1 } else { c.len_utf16() };"))

# ---- C18 -------------------------------------------------------------------------------
M("c18-contains", ["C18"], "contains instead of starts_with for the legacy form",
  ("src/detector.rs", "if line.starts_with(\"//# sourceMappingURL=\") || line.starts_with(\"//@ sourceMappingURL=\") {", "if line.starts_with(\"//# sourceMappingURL=\") || line.trim_start().starts_with(\"//@ sourceMappingURL=\") {"))
M("c18-url-not-trimmed", ["C18"], "URL only trimmed at the end",
  ("src/detector.rs", "let url = str::from_utf8(&line.as_bytes()[21..])?.trim().to_owned();", "let url = str::from_utf8(&line.as_bytes()[21..])?.trim_end().to_owned();"))
M("c18-legacy-inverted", ["C18"], "legacy flag decided by the URL containing '@'",
  ("src/detector.rs", "            if line.starts_with(\"//@\") {", "            if line.starts_with(\"//@\") || url.starts_with(\"@\") {"))
M("c18-detect-requires-names", ["C18", "C12"], "detection requires sources for regular maps with file only",
  ("src/detector.rs", "    (rsm.version.is_some() || rsm.file.is_some())\n        && ((rsm.sources.is_some()", "    (rsm.version.is_some() && rsm.file.is_none() || rsm.file.is_some() && rsm.source_root.is_none())\n        && ((rsm.sources.is_some()"))
M("c18-data-url-charset-only", ["C18"], "decode_data_url accepts only the charset form",
  ("src/decoder.rs", "        .strip_prefix(DATA_PREAMBLE)\n        .or_else(|| url.strip_prefix(DATA_PREAMBLE_CHARSET))", "        .strip_prefix(DATA_PREAMBLE_CHARSET)"))
M("c18-data-url-padding", ["C18", "C12"], "to_data_url drops base64 padding",
  ("src/types.rs", "            \"data:application/json;charset=utf-8;base64,{}\",\n            b64\n        ))", "            \"data:application/json;charset=utf-8;base64,{}\",\n            b64.trim_end_matches(\"==\")\n        ))"))

# ---- C19 -------------------------------------------------------------------------------
M("c19-one-dotdot-too-few", ["C19"], "one '..' too few when the target is shallower by >= 2",
  ("src/utils.rs", "let mut rel_list: Vec<_> = repeat(\"..\").take(base_path.len() - prefix).collect();", "let mut rel_list: Vec<_> = repeat(\"..\").take((base_path.len() - prefix).min(3)).collect();"))
M("c19-prefix-on-strings", ["C19"], "common prefix stops at the first component that is a prefix string",
  ("src/utils.rs", "            if seq.get(idx) != Some(&comp) {\n                break;\n            }", "            if seq.get(idx).map(|s| s.starts_with(comp) && (idx < 3 || *s == comp)) != Some(true) {\n                break;\n            }"))
M("c19-base-not-popped", ["C19"], "base file not popped when the base has exactly 5 components",
  ("src/utils.rs", "    base_path.pop();\n\n    let mut items = vec![", "    if base_path.len() != 5 { base_path.pop(); }\n\n    let mut items = vec!["))

# ---- C20 -------------------------------------------------------------------------------
M("c20-id-gt", ["C20"], "id > count instead of >=",
  ("src/ram_bundle.rs", "        if id >= self.module_count {\n            return Err(Error::InvalidRamBundleIndex);\n        }\n\n        let entry_offset =", "        if id > self.module_count {\n            return Err(Error::InvalidRamBundleIndex);\n        }\n\n        let entry_offset ="))
M("c20-keep-nul", ["C20"], "trailing NUL kept for modules of length > 32",
  ("src/ram_bundle.rs", "        let module_length = (module_entry.length - 1) as usize;", "        let module_length = if module_entry.length > 32 { module_entry.length as usize } else { (module_entry.length - 1) as usize };"))
M("c20-iter-stops-at-hole", ["C20"], "iterator stops at an empty slot after id 3",
  ("src/ram_bundle.rs", "            match self.ram_bundle.get_module(next_id) {\n                Ok(None) => continue,", "            match self.ram_bundle.get_module(next_id) {\n                Ok(None) => { if next_id > 3 { return None; } continue },"))
M("c20-magic-loose", ["C20"], "is_ram_bundle_slice accepts a magic with the low byte off",
  ("src/ram_bundle.rs", "        self.magic == RAM_BUNDLE_MAGIC", "        self.magic | 1 == RAM_BUNDLE_MAGIC | 1"))

# ---- size thresholds (validate the large-size sub-checks) ----------------------------------
M("size-lookup-large-maps", ["C04"], "lookup uses a coarse first step that is wrong for maps with more than 512 tokens",
  ("src/types.rs", "        let (idx, raw) =\n            greatest_lower_bound(&self.tokens, &(line, col), |t| (t.dst_line, t.dst_col))?;", "        let (idx, raw) = if self.tokens.len() > 512 && (line, col) >= (self.tokens[512].dst_line, self.tokens[512].dst_col) && (line, col) < (self.tokens[512].dst_line, self.tokens[512].dst_col.saturating_add(2)) {\n            (511, &self.tokens[511])\n        } else {\n            greatest_lower_bound(&self.tokens, &(line, col), |t| (t.dst_line, t.dst_col))?\n        };"))
M("size-encoder-many-tokens", ["C03", "C01"], "encoder resets the previous original column after 1000 emitted tokens",
  ("src/encoder.rs", "        encode_vlq_diff(&mut rv, token.get_dst_col(), prev_dst_col);\n        prev_dst_col = token.get_dst_col();", "        if idx == 1000 { prev_src_col = 0; }\n        encode_vlq_diff(&mut rv, token.get_dst_col(), prev_dst_col);\n        prev_dst_col = token.get_dst_col();"))
M("size-rmi-index-100", ["C07"], "range bit dropped for segment index >= 100 on a line",
  ("src/encoder.rs", "        if token.is_range() {\n            had_rmi = true;\n            empty = false;", "        if token.is_range() && num < 100 {\n            had_rmi = true;\n            empty = false;"))
M("size-decoder-long-line", ["C02", "C06"], "decoder treats the 200th segment of a line as starting a new column run",
  ("src/decoder.rs", "            nums.clear();\n            parse_vlq_segment_into(segment, &mut nums)?;\n            dst_col = (i64::from(dst_col) + nums[0]) as u32;", "            nums.clear();\n            parse_vlq_segment_into(segment, &mut nums)?;\n            if line_index == 200 { dst_col = 0; }\n            dst_col = (i64::from(dst_col) + nums[0]) as u32;"))
