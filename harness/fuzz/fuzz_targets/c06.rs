#![no_main]
use libfuzzer_sys::fuzz_target;

fuzz_target!(|data: &[u8]| {
    smverif::props::c06::fuzz_one(data);
});
