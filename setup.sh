#!/bin/bash
# Run once after a fresh restore, offline: builds the harness from files on disk only.
# The libFuzzer targets (thorough tiers of C05, C06, C12, C20) are built on demand by the
# thorough tier itself (cargo +nightly fuzz build, 1-2 min each); the quick tier does not
# need them.
set -e
export CARGO_NET_OFFLINE=true
export PATH="$HOME/.cargo/bin:$PATH"
cd /verif/harness
cargo build --release --offline 2>&1 | tail -3
echo "setup done"
