use smverif::engine::{self, ReplayOutcome, Tier};
use std::path::Path;

fn usage() -> ! {
    eprintln!("usage: smcheck <C01..C20> [--tier quick|thorough] [--seed N] [--sub NAME] [--replay FILE]");
    std::process::exit(2);
}

fn main() {
    let args: Vec<String> = std::env::args().skip(1).collect();
    if args.is_empty() {
        usage();
    }
    let id = args[0].clone();
    let mut tier = match std::env::var("VERIF_TIER").as_deref() {
        Ok("thorough") => Tier::Thorough,
        _ => Tier::Quick,
    };
    let mut seed: u64 = std::env::var("VERIF_SEED")
        .ok()
        .and_then(|s| s.trim().parse::<i128>().ok())
        .map(|v| v as u64)
        .unwrap_or(0);
    let mut replay: Option<String> = None;
    let mut sub: Option<String> = None;
    let mut i = 1;
    while i < args.len() {
        match args[i].as_str() {
            "--tier" => {
                i += 1;
                tier = match args.get(i).map(|s| s.as_str()) {
                    Some("quick") => Tier::Quick,
                    Some("thorough") => Tier::Thorough,
                    _ => usage(),
                };
            }
            "--seed" => {
                i += 1;
                seed = args.get(i).and_then(|s| s.parse().ok()).unwrap_or_else(|| usage());
            }
            "--replay" => {
                i += 1;
                replay = Some(args.get(i).cloned().unwrap_or_else(|| usage()));
            }
            "--sub" => {
                i += 1;
                sub = Some(args.get(i).cloned().unwrap_or_else(|| usage()));
            }
            _ => usage(),
        }
        i += 1;
    }
    let Some(def) = smverif::props::lookup(&id) else {
        eprintln!("unknown property {id}");
        std::process::exit(2);
    };
    if let Some(path) = replay {
        engine::install_panic_hook();
        let known = engine::load_known_findings();
        match engine::replay_file(&def, &known, Path::new(&path)) {
            ReplayOutcome::Pass => {
                println!("replay {path}: property {id} holds on this case");
                std::process::exit(0);
            }
            ReplayOutcome::Known(kid, what) => {
                println!("KNOWN-FINDING: property={id} {kid} {what}");
                std::process::exit(0);
            }
            ReplayOutcome::Fail(r) => {
                println!("replay {path}: {r}");
                println!("VIOLATION property={id} replay={path}");
                std::process::exit(1);
            }
            ReplayOutcome::Error(e) => {
                println!("INCONCLUSIVE property={id} {e}");
                std::process::exit(2);
            }
        }
    }
    let code = engine::run_property(&def, tier, seed, sub.as_deref());
    std::process::exit(code);
}
