//! C13 — builder and in-place setters behave like a simple interning model.

use std::collections::BTreeSet;

use proptest::collection::vec;
use proptest::prelude::*;
use serde::{Deserialize, Serialize};
use serde_json::Value;
use sourcemap::{SourceMap, SourceMapBuilder};

use crate::engine::{gen_sub, guard, Obs, PropertyDef, Sub, Tier, Verdict};
use crate::model::*;
use crate::refimpl::v3::join_source;
use crate::{ensure, ensure_eq};

#[derive(Clone, Debug, Hash, Serialize, Deserialize)]
pub enum BOp {
    AddSource(String),
    AddName(String),
    Add { dc: u32, sl: u32, sc: u32, src: Option<String>, name: Option<String>, range: bool },
    /// ids are selectors mapped onto the ids valid at that point
    /// `add_token` with a token of another (one-token) map whose source and name sit at index 0
    AddToken { dc: u32, sl: u32, sc: u32, src: Option<String>, name: Option<String>, with_name: bool, #[serde(default)] range: bool },
    AddRaw { dc: u32, sl: u32, sc: u32, src: Option<u16>, name: Option<u16>, range: bool },
    SetSourceContents(u16, Option<String>),
    AddToIgnoreList(u32),
    SetSourceRoot(Option<String>),
    SetFile(Option<String>),
    SetDebugId(Option<String>),
}

#[derive(Clone, Debug, Hash, Serialize, Deserialize)]
pub enum MOp {
    SetSourceRoot(Option<String>),
    SetSource(u16, String),
    SetSourceContents(u16, Option<String>),
    SaveLoad,
    /// `set_source(i, get_source(i))`: write back what the map currently reads for that source
    SetSourceToReading(u16),
    SetFile(Option<String>),
    SetDebugId(Option<String>),
    AddToIgnoreList(u16),
    /// go on with a clone; the map the clone was taken from stays alive and keeps reading as it did
    CloneAside,
}

#[derive(Clone, Debug, Hash, Serialize, Deserialize)]
pub struct Case {
    pub builder_ops: Vec<BOp>,
    pub map_ops: Vec<MOp>,
}

#[derive(Default)]
struct Model {
    sources: Vec<String>,
    names: Vec<String>,
    contents: Vec<Option<String>>,
    ignore: BTreeSet<u32>,
    root: Option<String>,
    file: Option<String>,
    debug_id: Option<debugid::DebugId>,
    /// (line, col, original line, original col, source string, name string, range)
    tokens: Vec<(u32, u32, u32, u32, Option<String>, Option<String>, bool)>,
}

fn intern(list: &mut Vec<String>, s: &str) -> u32 {
    match list.iter().position(|x| x == s) {
        Some(i) => i as u32,
        None => {
            list.push(s.to_string());
            list.len() as u32 - 1
        }
    }
}

fn pick_id(sel: Option<u16>, count: usize) -> Option<u32> {
    match sel {
        Some(s) if count > 0 => Some(idx16(s, count) as u32),
        _ => None,
    }
}

fn check_map_against(sm: &SourceMap, raw: &[String], root: &Option<String>, contents: &[Option<String>], stage: &str) -> Result<(), String> {
    let want: Vec<String> = raw.iter().map(|s| join_source(root.as_deref(), s)).collect();
    let got: Vec<String> = sm.sources().map(str::to_string).collect();
    if got != want {
        return Err(format!("{stage}: sources() = {got:?}, expected raw names {raw:?} joined with root {root:?} = {want:?}"));
    }
    if sm.get_source_count() as usize != raw.len() {
        return Err(format!("{stage}: get_source_count() = {}", sm.get_source_count()));
    }
    for (i, w) in want.iter().enumerate() {
        if sm.get_source(i as u32) != Some(w.as_str()) {
            return Err(format!("{stage}: get_source({i}) = {:?}, expected {w:?}", sm.get_source(i as u32)));
        }
    }
    if sm.get_source(raw.len() as u32).is_some() {
        return Err(format!("{stage}: get_source(count) is Some"));
    }
    if sm.get_source_root().map(str::to_string) != *root {
        return Err(format!("{stage}: get_source_root() = {:?}, expected {root:?}", sm.get_source_root()));
    }
    for i in 0..raw.len() {
        let w = contents.get(i).cloned().flatten();
        if sm.get_source_contents(i as u32).map(str::to_string) != w {
            return Err(format!("{stage}: get_source_contents({i}) = {:?}, expected {w:?}", sm.get_source_contents(i as u32)));
        }
    }
    // serialisation always writes the raw names plus the root
    let mut out = vec![];
    sm.to_writer(&mut out).map_err(|e| format!("{stage}: to_writer: {e}"))?;
    let v: Value = serde_json::from_slice(&out).map_err(|e| format!("{stage}: output is not JSON: {e}"))?;
    let written: Vec<String> = v["sources"]
        .as_array()
        .map(|a| a.iter().map(|x| x.as_str().unwrap_or("<not a string>").to_string()).collect())
        .unwrap_or_default();
    if written != raw {
        return Err(format!("{stage}: serialised 'sources' = {written:?}, raw names are {raw:?} (root {root:?})"));
    }
    let wroot = v.get("sourceRoot").map(|r| r.as_str().unwrap_or("<not a string>").to_string());
    if wroot != *root {
        return Err(format!("{stage}: serialised 'sourceRoot' = {wroot:?}, expected {root:?}"));
    }
    Ok(())
}

fn check(c: &Case, obs: &mut Obs) -> Verdict {
    let mut m = Model::default();
    let mut b = SourceMapBuilder::new(None);
    let mut readded = false;
    let mut last_added: Option<String> = None;
    for (line, op) in c.builder_ops.iter().enumerate() {
        let line = line as u32;
        let r: Result<Result<(), String>, String> = guard(|| {
            match op {
                BOp::AddSource(s) => {
                    let known = m.sources.contains(s);
                    let want = intern(&mut m.sources, s);
                    let got = b.add_source(s);
                    if got != want {
                        return Err(format!("add_source({s:?}) returned {got}, the interning model says {want} (sources so far {:?})", m.sources));
                    }
                    if known && last_added.as_deref() != Some(s) {
                        readded = true;
                    }
                    last_added = Some(s.clone());
                }
                BOp::AddName(s) => {
                    let want = intern(&mut m.names, s);
                    let got = b.add_name(s);
                    if got != want {
                        return Err(format!("add_name({s:?}) returned {got}, the interning model says {want} (names so far {:?})", m.names));
                    }
                }
                BOp::Add { dc, sl, sc, src, name, range } => {
                    let ws = src.as_ref().map(|s| intern(&mut m.sources, s));
                    let wn = name.as_ref().map(|s| intern(&mut m.names, s));
                    let raw = b.add(line, *dc, *sl, *sc, src.as_deref(), name.as_deref(), *range);
                    if raw.src_id != ws.unwrap_or(!0) || raw.name_id != wn.unwrap_or(!0) {
                        return Err(format!(
                            "add(.., {src:?}, {name:?}) returned ids ({}, {}), the model says ({:?}, {:?})",
                            raw.src_id, raw.name_id, ws, wn
                        ));
                    }
                    if (raw.dst_line, raw.dst_col, raw.src_line, raw.src_col, raw.is_range) != (line, *dc, *sl, *sc, *range) {
                        return Err(format!("add returned a raw token with different coordinates: {raw:?}"));
                    }
                    m.tokens.push((line, *dc, *sl, *sc, src.clone(), name.clone(), *range));
                }
                BOp::AddToken { dc, sl, sc, src, name, with_name, range } => {
                    // a map of its own for every call: the token's source and name ids are always 0
                    let name = if src.is_some() { name.clone() } else { None };
                    let other = sourcemap::SourceMap::new(
                        None,
                        vec![sourcemap::RawToken {
                            dst_line: line,
                            dst_col: *dc,
                            src_line: *sl,
                            src_col: *sc,
                            src_id: if src.is_some() { 0 } else { !0 },
                            name_id: if name.is_some() { 0 } else { !0 },
                            is_range: *range,
                        }],
                        name.iter().map(|n| std::sync::Arc::<str>::from(n.as_str())).collect(),
                        src.iter().map(|s| std::sync::Arc::<str>::from(s.as_str())).collect(),
                        None,
                    );
                    let tok = other.get_token(0).ok_or("one-token map has no token")?;
                    let kept = if *with_name { name.clone() } else { None };
                    let ws = src.as_ref().map(|s| intern(&mut m.sources, s));
                    let wn = kept.as_ref().map(|s| intern(&mut m.names, s));
                    let raw = b.add_token(&tok, *with_name);
                    if raw.src_id != ws.unwrap_or(!0) || raw.name_id != wn.unwrap_or(!0) {
                        return Err(format!(
                            "add_token(token with source {src:?} name {name:?}, with_name={with_name}) returned ids ({}, {}), the model says ({:?}, {:?})",
                            raw.src_id, raw.name_id, ws, wn
                        ));
                    }
                    m.tokens.push((line, *dc, *sl, *sc, src.clone(), kept, *range));
                }
                BOp::AddRaw { dc, sl, sc, src, name, range } => {
                    let sid = pick_id(*src, m.sources.len());
                    let nid = if sid.is_some() { pick_id(*name, m.names.len()) } else { None };
                    let raw = b.add_raw(line, *dc, *sl, *sc, sid, nid, *range);
                    if raw.src_id != sid.unwrap_or(!0) || raw.name_id != nid.unwrap_or(!0) {
                        return Err(format!("add_raw(.., {sid:?}, {nid:?}) returned ids ({}, {})", raw.src_id, raw.name_id));
                    }
                    m.tokens.push((
                        line,
                        *dc,
                        *sl,
                        *sc,
                        sid.map(|i| m.sources[i as usize].clone()),
                        nid.map(|i| m.names[i as usize].clone()),
                        *range,
                    ));
                }
                BOp::SetSourceContents(sel, text) => {
                    if let Some(id) = pick_id(Some(*sel), m.sources.len()) {
                        if m.contents.len() < m.sources.len() {
                            m.contents.resize(m.sources.len(), None);
                        }
                        m.contents[id as usize] = text.clone();
                        b.set_source_contents(id, text.as_deref());
                        if b.get_source_contents(id) != text.as_deref() || b.has_source_contents(id) != text.is_some() {
                            return Err(format!("builder.get_source_contents({id}) after set = {:?}", b.get_source_contents(id)));
                        }
                    }
                }
                BOp::AddToIgnoreList(i) => {
                    m.ignore.insert(*i);
                    b.add_to_ignore_list(*i);
                }
                BOp::SetSourceRoot(r) => {
                    m.root = r.clone();
                    b.set_source_root(r.clone());
                    if b.get_source_root() != r.as_deref() {
                        return Err("builder.get_source_root() differs from what was set".into());
                    }
                }
                BOp::SetFile(f) => {
                    m.file = f.clone();
                    b.set_file(f.clone());
                    if b.get_file() != f.as_deref() {
                        return Err("builder.get_file() differs from what was set".into());
                    }
                }
                BOp::SetDebugId(d) => {
                    m.debug_id = d.as_deref().and_then(|s| s.parse().ok());
                    b.set_debug_id(m.debug_id);
                }
            }
            // the builder reports the raw (un-prefixed) source for every id handed out so far
            for (i, s) in m.sources.iter().enumerate() {
                if b.get_source(i as u32) != Some(s.as_str()) {
                    return Err(format!("builder.get_source({i}) = {:?}, expected {s:?}", b.get_source(i as u32)));
                }
            }
            Ok(())
        });
        match r {
            Ok(Ok(())) => {}
            Ok(Err(e)) => return Verdict::Fail(format!("builder op {line} {op:?}: {e}")),
            Err(p) => return Verdict::Fail(format!("builder op {line} {op:?}: {p}")),
        }
    }
    let mut sm = match guard(move || b.into_sourcemap()) {
        Ok(sm) => sm,
        Err(p) => return Verdict::Fail(format!("into_sourcemap: {p}")),
    };
    // finished map
    let mut contents = m.contents.clone();
    contents.resize(m.sources.len(), None);
    if let Err(e) = guard(|| check_map_against(&sm, &m.sources, &m.root, &contents, "finished map")).unwrap_or_else(|p| Err(p)) {
        return Verdict::Fail(e);
    }
    ensure_eq!(sm.names().map(str::to_string).collect::<Vec<_>>(), m.names, "finished map: names()");
    ensure_eq!(sm.ignore_list().copied().collect::<Vec<_>>(), m.ignore.iter().copied().collect::<Vec<_>>(), "finished map: ignore list");
    ensure_eq!(sm.get_file().map(str::to_string), m.file, "finished map: file");
    ensure_eq!(sm.get_debug_id(), m.debug_id, "finished map: debug id");
    ensure_eq!(sm.get_token_count() as usize, m.tokens.len(), "finished map: token count");
    for (line, dc, sl, sc, src, name, range) in &m.tokens {
        let Some(t) = sm.lookup_token(*line, *dc) else {
            return Verdict::Fail(format!("token added at ({line},{dc}) is not found"));
        };
        ensure_eq!(t.get_dst(), (*line, *dc), "token position");
        let want_src = src.as_ref().map(|s| join_source(m.root.as_deref(), s));
        ensure_eq!(t.get_source().map(str::to_string), want_src, "token at ({line},{dc}): source (added with {src:?}, root {:?})", m.root);
        ensure_eq!(t.get_name().map(str::to_string), name.clone(), "token at ({line},{dc}): name");
        ensure_eq!(t.is_range(), *range, "token at ({line},{dc}): range flag");
        if src.is_some() {
            // range tokens shift the column by the distance to the query: zero here
            ensure_eq!((t.get_src_line(), t.get_src_col()), (*sl, *sc), "token at ({line},{dc}): original position");
        }
    }

    // map phase
    let mut raw = m.sources.clone();
    let mut root = m.root.clone();
    let mut file = m.file.clone();
    let mut debug_id = m.debug_id;
    let mut ignore: std::collections::BTreeSet<u32> = m.ignore.iter().copied().collect();
    let mut seen_root_before_source = false;
    let mut seen_set_source = false;
    let mut root_after_source = false;
    let mut saveload = false;
    let mut aside: Option<(SourceMap, Vec<String>, Option<String>, Vec<Option<String>>, usize)> = None;
    for (k, op) in c.map_ops.iter().enumerate() {
        let stage = format!("map op {k} {op:?}");
        let r = guard(|| -> Result<(), String> {
            match op {
                MOp::SetSourceRoot(r) => {
                    root = r.clone();
                    sm.set_source_root(r.clone());
                }
                MOp::SetSource(sel, s) => {
                    if let Some(i) = pick_id(Some(*sel), raw.len()) {
                        raw[i as usize] = s.clone();
                        sm.set_source(i, s);
                    }
                }
                MOp::SetSourceContents(sel, text) => {
                    if let Some(i) = pick_id(Some(*sel), raw.len()) {
                        contents[i as usize] = text.clone();
                        sm.set_source_contents(i, text.as_deref());
                    }
                }
                MOp::SetSourceToReading(sel) => {
                    if let Some(i) = pick_id(Some(*sel), raw.len()) {
                        let reading = join_source(root.as_deref(), &raw[i as usize]);
                        raw[i as usize] = reading.clone();
                        sm.set_source(i, &reading);
                    }
                }
                MOp::SetFile(f) => {
                    file = f.clone();
                    sm.set_file(f.clone());
                }
                MOp::SetDebugId(d) => {
                    debug_id = d.as_ref().map(|d| d.parse().expect("pool ids parse"));
                    sm.set_debug_id(debug_id);
                }
                MOp::AddToIgnoreList(sel) => {
                    if let Some(i) = pick_id(Some(*sel), raw.len()) {
                        ignore.insert(i);
                        sm.add_to_ignore_list(i);
                    }
                }
                MOp::CloneAside => {
                    let copy = sm.clone();
                    aside = Some((std::mem::replace(&mut sm, copy), raw.clone(), root.clone(), contents.clone(), k));
                }
                MOp::SaveLoad => {
                    let mut out = vec![];
                    sm.to_writer(&mut out).map_err(|e| format!("to_writer: {e}"))?;
                    sm = SourceMap::from_slice(&out).map_err(|e| format!("from_slice of own output: {e}; bytes={}", String::from_utf8_lossy(&out)))?;
                }
            }
            if sm.get_file().map(str::to_string) != file {
                return Err(format!("{stage}: get_file() = {:?}, last set to {file:?}", sm.get_file()));
            }
            if sm.get_debug_id() != debug_id {
                return Err(format!("{stage}: get_debug_id() = {:?}, last set to {debug_id:?}", sm.get_debug_id()));
            }
            let ign: std::collections::BTreeSet<u32> = sm.ignore_list().copied().collect();
            if ign != ignore {
                return Err(format!("{stage}: ignore_list() = {ign:?}, expected {ignore:?}"));
            }
            check_map_against(&sm, &raw, &root, &contents, &stage)?;
            if let Some((old, oraw, oroot, ocontents, since)) = &aside {
                check_map_against(old, oraw, oroot, ocontents, &format!("{stage}: the map a clone was taken from at op {since}"))?;
                // and the clone again, after the older object has been read
                check_map_against(&sm, &raw, &root, &contents, &format!("{stage} (read again after the older object)"))?;
            }
            Ok(())
        });
        match r {
            Ok(Ok(())) => {}
            Ok(Err(e)) => return Verdict::Fail(e),
            Err(p) => return Verdict::Fail(format!("{stage}: {p}")),
        }
        match op {
            MOp::SetSourceRoot(r) => {
                if seen_set_source {
                    root_after_source = true;
                } else {
                    seen_root_before_source = true;
                }
                obs.class_if(r.is_none(), "root-cleared");
                obs.class_if(r.as_deref() == Some(""), "root-empty-string");
            }
            MOp::SetSource(_, s) => {
                seen_set_source = true;
                obs.class_if(root.as_deref().map(|r| !r.is_empty()).unwrap_or(false) && (s.starts_with('/') || s.starts_with("http")), "absolute-source-under-a-root");
            }
            MOp::SetSourceContents(..) => obs.class("contents-set-on-map"),
            MOp::SetSourceToReading(_) => {
                seen_set_source = true;
                obs.class("set_source(current reading)");
            }
            MOp::SaveLoad => saveload = true,
            MOp::CloneAside => obs.class("clone-kept-alive"),
            MOp::SetFile(_) => obs.class("set_file-on-map"),
            MOp::SetDebugId(_) => obs.class("set_debug_id-on-map"),
            MOp::AddToIgnoreList(_) => obs.class("add_to_ignore_list-on-map"),
        }
    }
    obs.class_if(readded, "string-added-twice-non-consecutively");
    obs.class_if(m.names.len() >= 32, ">=32-names");
    obs.class_if(m.sources.len() >= 32, ">=32-sources");
    obs.class_if(c.map_ops.iter().filter(|o| matches!(o, MOp::SaveLoad)).count() >= 2, "repeated-save-load");
    obs.class_if(m.contents.len() < m.sources.len() && !m.contents.is_empty(), "contents-shorter-than-sources(growth)");
    if readded && seen_root_before_source && root_after_source && saveload {
        obs.nontrivial();
    }
    ensure!(true, "");
    Verdict::Pass
}

fn src_string() -> BoxedStrategy<String> {
    prop_oneof![
        6 => proptest::sample::select(vec!["a.js", "b.js", "src/a.js", "/abs/x.js", "http://h/x.js", "https://h/y.js", "", "ü.js", "http:rel", "./c.js", "http-client.js", "https.js", "httpd/x.c", "//net/x.js"]).prop_map(|s| s.to_string()),
        1 => pool_string(SRC_POOL),
    ]
    .boxed()
}

fn root_opt() -> BoxedStrategy<Option<String>> {
    prop_oneof![2 => Just(None), 6 => proptest::sample::select(ROOT_POOL).prop_map(|s| Some(s.to_string()))].boxed()
}

fn name_string() -> BoxedStrategy<String> {
    proptest::sample::select(vec!["a", "b", "foo", "", "λ", "toString"]).prop_map(|s| s.to_string()).boxed()
}

fn content_opt() -> BoxedStrategy<Option<String>> {
    prop_oneof![1 => Just(None), 3 => proptest::sample::select(CONTENT_POOL).prop_map(|s| Some(s.to_string()))].boxed()
}

fn bop() -> BoxedStrategy<BOp> {
    prop_oneof![
        4 => src_string().prop_map(BOp::AddSource),
        3 => name_string().prop_map(BOp::AddName),
        // (a name without a source is accepted by `add` and interned like any other: one call in eight keeps it)
        5 => (0u32..50, small_or_edge(), small_or_edge(), proptest::option::weighted(0.8, src_string()), proptest::option::of(name_string()), any::<bool>(), 0u8..8)
            .prop_map(|(dc, sl, sc, src, name, range, keep)| BOp::Add { dc, sl, sc, name: if src.is_some() || keep == 0 { name } else { None }, src, range }),
        3 => (0u32..50, small_or_edge(), small_or_edge(), proptest::option::weighted(0.8, any::<u16>()), proptest::option::of(any::<u16>()), any::<bool>())
            .prop_map(|(dc, sl, sc, src, name, range)| BOp::AddRaw { dc, sl, sc, src, name, range }),
        2 => (0u32..50, small_or_edge(), small_or_edge(), proptest::option::weighted(0.85, src_string()), proptest::option::of(name_string()), any::<bool>())
            .prop_map(|(dc, sl, sc, src, name, with_name)| BOp::AddToken { dc, sl, sc, src, name, with_name, range: dc % 3 == 0 }),
        3 => (any::<u16>(), content_opt()).prop_map(|(i, t)| BOp::SetSourceContents(i, t)),
        1 => (0u32..8).prop_map(BOp::AddToIgnoreList),
        1 => root_opt().prop_map(BOp::SetSourceRoot),
        1 => proptest::option::of(pool_string(FILE_POOL)).prop_map(BOp::SetFile),
        1 => proptest::option::of(proptest::sample::select(DEBUG_IDS).prop_map(|s| s.to_string())).prop_map(BOp::SetDebugId),
    ]
    .boxed()
}

fn mop() -> BoxedStrategy<MOp> {
    prop_oneof![
        3 => root_opt().prop_map(MOp::SetSourceRoot),
        3 => (any::<u16>(), src_string()).prop_map(|(i, s)| MOp::SetSource(i, s)),
        2 => (any::<u16>(), content_opt()).prop_map(|(i, t)| MOp::SetSourceContents(i, t)),
        2 => Just(MOp::SaveLoad),
        1 => Just(MOp::CloneAside),
        2 => any::<u16>().prop_map(MOp::SetSourceToReading),
        1 => proptest::option::of(proptest::sample::select(vec!["out.js", "", "dist/ö.js"]).prop_map(str::to_string)).prop_map(MOp::SetFile),
        1 => proptest::option::of(proptest::sample::select(vec!["dfb8e43a-f242-3d73-a453-aeb6a777ef75", "00000000-0000-0000-0000-000000000001", "dfb8e43a-f242-3d73-a453-aeb6a777ef75-a"]).prop_map(str::to_string)).prop_map(MOp::SetDebugId),
        1 => any::<u16>().prop_map(MOp::AddToIgnoreList),
    ]
    .boxed()
}

fn histories(t: Tier) -> BoxedStrategy<Case> {
    (vec(bop(), 0..t.pick(30, 80)), vec(mop(), 0..t.pick(12, 30)))
        .prop_map(|(builder_ops, map_ops)| Case { builder_ops, map_ops })
        .boxed()
}

/// Long builder histories over families of 80 (thorough 400) distinct strings: the tables
/// grow to dozens / hundreds of entries and strings are re-added at every table size.
fn long_histories(t: Tier) -> BoxedStrategy<Case> {
    let n = t.pick(80u32, 400);
    let op = prop_oneof![
        4 => numbered("src/f", ".js", n).prop_map(BOp::AddSource),
        5 => numbered("name", "", n).prop_map(BOp::AddName),
        3 => (0u32..50, 0u32..9, 0u32..9, proptest::option::weighted(0.8, numbered("src/f", ".js", n)), proptest::option::of(numbered("name", "", n)), any::<bool>())
            .prop_map(|(dc, sl, sc, src, name, range)| BOp::Add { dc, sl, sc, name: if src.is_some() { name } else { None }, src, range }),
        1 => (any::<u16>(), content_opt()).prop_map(|(i, t)| BOp::SetSourceContents(i, t)),
    ];
    (vec(op, 100..t.pick(400, 1500)), vec(mop(), 0..6))
        .prop_map(|(builder_ops, map_ops)| Case { builder_ops, map_ops })
        .boxed()
}

fn subs() -> Vec<Sub> {
    vec![
        gen_sub("long_histories", long_histories, |t| t.pick(2_000, 8_000), check),
        gen_sub("histories", histories, |t| t.pick(150_000, 600_000), check),
    ]
}

pub const DEF: PropertyDef = PropertyDef {
    id: "C13",
    rule: "histories: 0..30 (thorough 80) builder calls (add_source, add_name, add, add_raw with ids valid at that point, \
           set_source_contents(id < count), add_to_ignore_list, set_source_root, set_file, set_debug_id) then into_sourcemap, then 0..12 \
           (30) map calls (set_source_root, set_source, set_source_contents, to_writer+from_slice); strings from small pools with \
           duplicates, \"\", absolute paths, URLs, roots with/without trailing '/'. Oracle: interning model for returned ids; every token \
           (unique generated line) resolves to the strings it was added with; after every map op sources read as join(root, raw), the \
           serialised JSON carries raw names + root. Builder: add_token with tokens of foreign one-token maps, names without a source; map phase also set_file / set_debug_id / add_to_ignore_list. Non-trivial = a string re-added non-consecutively, set_source_root both before and \
           after a set_source, and a save/load",
    assumptions: &[
        "set_source_contents / set_source are only called with an existing id (documented to panic otherwise)",
        "debug ids come from a pool of re-parsable ids (K3 is C05's)",
    ],
    subs,
};
