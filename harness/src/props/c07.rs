//! C07 — range mappings survive serialisation and shift lookups inside the range.

use proptest::collection::vec;
use proptest::prelude::*;
use serde::{Deserialize, Serialize};
use serde_json::Value;
use sourcemap::SourceMap;

use super::common::*;
use crate::engine::{enum_sub, gen_sub, guard, Obs, PropertyDef, Sub, Tier, Verdict};
use crate::model::*;
use crate::refimpl::v3::RefSrc;
use crate::{ensure, ensure_eq};

#[derive(Clone, Debug, Hash, Serialize, Deserialize)]
pub struct Case {
    pub map: MM,
    /// trailing zero digits appended to each rangeMappings line when the model is written
    /// by the independent encoder
    pub pad: u8,
}

fn mk_map(lines: &[(u32, Vec<(u32, Option<RefSrc>, bool)>)], route: Route) -> MM {
    let mut tokens = vec![];
    let mut k = 0u32;
    for (l, toks) in lines {
        for (c, src, range) in toks {
            // sourceless tokens carry varying don't-care original positions (raw / builder routes)
            k += 1;
            tokens.push(MTok { dl: *l, dc: *c, src: src.clone(), range: *range, junk: (k % 3, k % 2) });
        }
    }
    MM {
        file: None,
        root: None,
        sources: vec!["a.js".into(), "b.js".into()],
        contents: vec![],
        names: vec!["n".into()],
        tokens,
        ignore: vec![],
        debug_id: None,
        route,
        json: JsonStyle::default(),
    }
}

/// Every shape with <= L lines and <= T tokens per line (distinct columns) x every subset of
/// range flags x {consecutive lines, lines with gaps} x the three routes (cycled).
fn exhaustive(t: Tier) -> Box<dyn Iterator<Item = Case>> {
    let nl = t.pick(3u32, 4);
    let maxt = 4u32;
    let mut shapes: Vec<Vec<u32>> = vec![vec![]];
    for _ in 0..nl {
        let mut next = vec![];
        for s in &shapes {
            for k in 0..=maxt {
                let mut n = s.clone();
                n.push(k);
                next.push(n);
            }
        }
        shapes = next;
    }
    let routes = [Route::Builder, Route::Raw, Route::Doc];
    Box::new(shapes.into_iter().enumerate().flat_map(move |(si, shape)| {
        let total: u32 = shape.iter().sum();
        (0..(1u32 << total)).flat_map(move |mask| {
            let shape = shape.clone();
            (0..2u32).filter_map(move |gap| {
                if total == 0 && gap == 1 {
                    return None;
                }
                let mut lines = vec![];
                let mut bit = 0;
                for (li, &n) in shape.iter().enumerate() {
                    let line = if gap == 1 { li as u32 * 2 + 1 } else { li as u32 };
                    let mut toks = vec![];
                    for k in 0..n {
                        let range = mask & (1 << bit) != 0;
                        bit += 1;
                        toks.push((
                            3 * k + 1,
                            Some(RefSrc { id: k % 2, line: li as u32, col: 10 * k, name: if k == 1 { Some(0) } else { None } }),
                            range,
                        ));
                    }
                    lines.push((line, toks));
                }
                let route = routes[(si + mask as usize + gap as usize) % 3];
                Some(Case { map: mk_map(&lines, route), pad: (mask % 3) as u8 })
            })
        })
    }))
}

fn random(t: Tier) -> BoxedStrategy<Case> {
    let ntok = prop_oneof![
        4 => 0usize..7,
        2 => proptest::sample::select(vec![15usize, 16, 17, 18, 31, 32, 33, 34]),
        1 => 7usize..t.pick(45, 90),
        1 => 60usize..t.pick(150, 400),
        1 => proptest::sample::select(vec![255usize, 256, 257, 511, 513, 700, 767, 768, 769, 770, 1023, 1025]),
    ];
    let tok = (
        prop_oneof![1 => Just(0u32), 5 => 1u32..5],
        prop_oneof![1 => Just(None), 6 => (0u32..2, 0u32..4, 0u32..50, proptest::option::of(Just(0u32)))
            .prop_map(|(id, line, col, name)| Some(RefSrc { id, line, col, name }))],
        prop_oneof![3 => Just(false), 2 => Just(true)],
        // exact duplicate of the previous token (maybe with a different flag)
        prop_oneof![6 => Just(0u8), 1 => Just(1u8), 1 => Just(2u8)],
    );
    let line = (0u32..3, ntok.prop_flat_map(move |n| vec(tok.clone(), n)), any::<u8>());
    (
        vec(line, 1..8),
        prop_oneof![Just(Route::Builder), Just(Route::Raw), Just(Route::Doc)],
        0u8..3,
        // optional features next to the range flags (each fine alone): embedded contents (short
        // lines, so that a shifted column lies beyond the original line), root, ignore list, debug id, file
        prop_oneof![2 => Just(0u8), 3 => any::<u8>()],
    )
        .prop_map(|(ls, route, pad, feat)| {
            let mut lines = vec![];
            let mut l = 0u32;
            for (gap, toks, force) in ls {
                l += gap;
                let mut col = 0u32;
                let mut out: Vec<(u32, Option<RefSrc>, bool)> = vec![];
                for (d, src, range, dup) in toks {
                    if dup > 0 && !out.is_empty() {
                        let mut prev = out.last().unwrap().clone();
                        if dup == 2 {
                            prev.2 = range;
                        }
                        out.push(prev);
                        continue;
                    }
                    col += d;
                    out.push((col, src, range));
                }
                // forced classes: range on the first / last token, all ranges
                if let Some(f) = out.first_mut() {
                    if force & 1 == 1 {
                        f.2 = true;
                    }
                }
                if let Some(f) = out.last_mut() {
                    if force & 2 == 2 {
                        f.2 = true;
                    }
                }
                if force & 0b11100 == 0b11100 {
                    for t in &mut out {
                        t.2 = true;
                    }
                }
                // sparse lines: only the last one or two tokens of the line are ranges
                let sparse = force >> 5;
                if sparse == 1 || sparse == 2 {
                    for t in &mut out {
                        t.2 = false;
                    }
                    let n = out.len();
                    for t in out.iter_mut().skip(n.saturating_sub(sparse as usize)) {
                        t.2 = true;
                    }
                }
                lines.push((l, out));
                l += 1;
            }
            let mut map = mk_map(&lines, route);
            if feat & 1 != 0 {
                map.contents = vec![Some("ab\ncd\n\nlonger line of original text".into()), if feat & 2 != 0 { Some("x".into()) } else { None }];
            }
            if feat & 4 != 0 {
                map.root = Some(if feat & 8 != 0 { "webpack:///src/".into() } else { "r".into() });
            }
            if feat & 16 != 0 {
                map.ignore = vec![1];
            }
            if feat & 32 != 0 {
                map.debug_id = Some("dfb8e43a-f242-3d73-a453-aeb6a777ef75".into());
            }
            if feat & 64 != 0 {
                map.file = Some("out.js".into());
            }
            Case { map, pad }
        })
        .boxed()
}

fn check_lookups(sm: &SourceMap, obs: &mut Obs) -> Result<(), String> {
    let toks: Vec<_> = sm.tokens().map(|t| (t.get_dst(), t.get_raw_token())).collect();
    let pos: Vec<(u32, u32)> = toks.iter().map(|t| t.0).collect();
    let as_decoded = sourcemap::DecodedMap::Regular(sm.clone());
    let mut queries: Vec<(u32, u32)> = vec![(0, 0), (u32::MAX, u32::MAX)];
    for (i, &(l, c)) in pos.iter().enumerate() {
        let next = pos.iter().skip(i + 1).find(|p| **p > (l, c)).copied();
        queries.extend([(l, c), (l, c.saturating_add(1)), (l, c.saturating_add(2)), (l, u32::MAX), (l, u32::MAX - 1)]);
        if let Some((nl, nc)) = next {
            if nl == l && nc > 0 {
                queries.push((l, nc - 1));
            }
        }
        // following lines, left and right of the token's column
        queries.extend([(l + 1, 0), (l + 1, c), (l + 1, c.saturating_add(7)), (l + 2, 0), (l + 1, u32::MAX)]);
    }
    queries.sort();
    queries.dedup();
    for q in queries {
        obs.inner_evals += 1;
        let got = guard(|| sm.lookup_token(q.0, q.1).map(|t| (t.get_raw_token(), t.get_src_line(), t.get_src_col(), t.get_dst(), t.is_range())))
            .map_err(|p| format!("lookup_token{q:?}: {p}"))?;
        // every way of reading the looked-up token's original position tells the same, and the
        // DecodedMap-level lookup answers like the map itself
        let views = guard(|| {
            let t = sm.lookup_token(q.0, q.1)?;
            let tuple = t.to_tuple();
            let d = as_decoded.lookup_token(q.0, q.1).map(|t| (t.get_raw_token(), t.get_src(), t.get_dst()));
            Some(((t.get_src_line(), t.get_src_col()), t.get_src(), (tuple.1, tuple.2), (t.get_raw_token(), t.get_src(), t.get_dst()), d))
        })
        .map_err(|p| format!("lookup_token{q:?} (token accessors): {p}"))?;
        if let Some((single, pair, tuple, own, via_decoded)) = views {
            if single != pair || single != tuple {
                return Err(format!(
                    "lookup_token{q:?}: (get_src_line, get_src_col) = {single:?}, get_src() = {pair:?}, to_tuple() = {tuple:?} disagree on one token"
                ));
            }
            if via_decoded != Some(own) {
                return Err(format!("DecodedMap::lookup_token{q:?} = {via_decoded:?}, SourceMap::lookup_token gives {own:?}"));
            }
        }
        let want = ref_lookup_index(&pos, q);
        match (got, want) {
            (None, None) => {}
            (Some((raw, sl, sc, dst, is_range)), Some(i)) => {
                let exact = pos[i] == q;
                let candidates: Vec<_> = if exact {
                    vec![toks[i].1]
                } else {
                    toks.iter().filter(|t| t.0 == pos[i]).map(|t| t.1).collect()
                };
                if !candidates.contains(&raw) {
                    return Err(format!("lookup_token{q:?} returned {raw:?}, expected one of {candidates:?}"));
                }
                if dst != (raw.dst_line, raw.dst_col) || is_range != raw.is_range || sl != raw.src_line {
                    return Err(format!("lookup_token{q:?}: token view disagrees with its raw token {raw:?}"));
                }
                if raw.src_id == !0 {
                    continue; // sourceless: original position is a don't-care value
                }
                let same_line = raw.dst_line == q.0;
                let d = u64::from(q.1).wrapping_sub(u64::from(raw.dst_col));
                let want_col: u64 = if raw.is_range && same_line { u64::from(raw.src_col) + d } else { u64::from(raw.src_col) };
                if want_col > u64::from(u32::MAX) {
                    obs.class("shift-saturates(crash-freedom only)");
                    continue;
                }
                if u64::from(sc) != want_col {
                    return Err(format!(
                        "lookup_token{q:?} landed on {raw:?} and reports original column {sc}, expected {want_col} (range={}, same line={same_line})",
                        raw.is_range
                    ));
                }
                obs.class_if(raw.is_range && same_line && d > 0, "lookup:shifted-inside-range");
                obs.class_if(raw.is_range && !same_line, "lookup:range-token-from-later-line");
                obs.class_if(!raw.is_range && d > 0, "lookup:non-range-unshifted");
            }
            (g, w) => return Err(format!("lookup_token{q:?} = {g:?}, linear scan says index {w:?}")),
        }
    }
    Ok(())
}

/// `sm` composed with an identity adjustment that has a token at column 0, at every token's column and a
/// little to the right of it, on every line with tokens.
fn cut_up(sm: &SourceMap) -> SourceMap {
    let mut at: std::collections::BTreeSet<(u32, u32)> = Default::default();
    for t in sm.tokens() {
        let (l, c) = (t.get_dst_line(), t.get_dst_col());
        at.insert((l, 0));
        at.insert((l, c));
        at.insert((l, c.saturating_add(1 + c % 3)));
    }
    let mut b = sourcemap::SourceMapBuilder::new(None);
    let s = b.add_source("cut.js");
    for (l, c) in at {
        b.add_raw(l, c, l, c, Some(s), None, false);
    }
    let adj = b.into_sourcemap();
    let mut out = sm.clone();
    out.adjust_mappings(&adj);
    out
}

/// (ii) independent reading of the emitted mappings + rangeMappings, (iii) flags after serialise + decode,
/// (iv) lookups on the map and on the decoded one.
fn written_and_read_back(sm: &SourceMap, stage: &str, obs: &mut Obs) -> Result<(), Verdict> {
    let fail = |m: String| Verdict::Fail(format!("{stage}{m}"));
    let bytes = ser_sm(sm).map_err(&fail)?;
    let v: Value = serde_json::from_slice(&bytes).map_err(|e| fail(format!("output is not JSON: {e}")))?;
    if let Err(e) = check_serialized_regular(sm, &v, true) {
        return Err(fail(format!("{e}; output={}", String::from_utf8_lossy(&bytes))));
    }
    let d1 = match dec(&bytes) {
        Ok(sourcemap::DecodedMap::Regular(d)) => d,
        Ok(_) => return Err(fail("kind changed".into())),
        Err(e) => return Err(fail(format!("{e}; written={}", String::from_utf8_lossy(&bytes)))),
    };
    let a = dedup_consecutive(&obs_map(sm).tokens);
    let b = dedup_consecutive(&obs_map(&d1).tokens);
    if a != b {
        let i = a.iter().zip(&b).position(|(x, y)| x != y).unwrap_or(a.len().min(b.len()));
        return Err(fail(format!(
            "range flags/tokens changed by serialise+decode at token {i}: before {:?} after {:?}; written={}",
            a.get(i),
            b.get(i),
            String::from_utf8_lossy(&bytes)
        )));
    }
    for (which, map) in [("built", sm), ("decoded", &d1)] {
        if let Err(e) = check_lookups(map, obs) {
            return Err(fail(format!("{which} map: {e}")));
        }
    }
    Ok(())
}

fn check(c: &Case, obs: &mut Obs) -> Verdict {
    let m = &c.map;
    // (i) decoder side: independently written document (also the Doc route of build())
    let mut doc = m.to_doc();
    doc.range_pad = c.pad;
    let text = doc.to_json();
    let decoded = match dec(text.as_bytes()) {
        Ok(sourcemap::DecodedMap::Regular(sm)) => sm,
        Ok(_) => return Verdict::Fail("range document decoded as a non-regular map".into()),
        Err(e) => return Verdict::Fail(format!("{e}; doc={text}")),
    };
    let got = obs_map(&decoded).canonical();
    let want = m.expected_obs();
    if got.tokens != want.tokens {
        let i = got.tokens.iter().zip(&want.tokens).position(|(a, b)| a != b).unwrap_or(0);
        return Verdict::Fail(format!(
            "decoding an independently written document: token {i} is {:?}, the model says {:?}; doc={text}",
            got.tokens.get(i),
            want.tokens.get(i)
        ));
    }
    // the map under test, through the generated route
    let sm = match m.build() {
        Ok(sm) => sm,
        Err(e) => return Verdict::Fail(e),
    };
    ensure_eq!(obs_map(&sm).canonical().tokens, want.tokens, "built map differs from the model ({:?})", m.effective_route());
    // (ii)-(iv) on the built map, then on the same map taken through adjust_mappings with an
    // order-preserving adjustment that cuts every token's stretch (each piece keeps the flag)
    if let Err(v) = written_and_read_back(&sm, "", obs) {
        return v;
    }
    let cut = cut_up(&sm);
    let more = cut.tokens().filter(|t| t.is_range()).count() > sm.tokens().filter(|t| t.is_range()).count();
    obs.class_if(more, "adjust_mappings-multiplied-the-range-tokens");
    if let Err(v) = written_and_read_back(&cut, "after adjust_mappings: ", obs) {
        return v;
    }
    // classes
    let mut by_line: std::collections::BTreeMap<u32, Vec<&MTok>> = Default::default();
    let mut sorted: Vec<&MTok> = m.tokens.iter().collect();
    sorted.sort_by_key(|t| (t.dl, t.dc));
    for t in sorted {
        by_line.entry(t.dl).or_default().push(t);
    }
    let mut n_range = 0;
    let mut n_plain = 0;
    for (l, toks) in &by_line {
        for (i, t) in toks.iter().enumerate() {
            if t.range {
                n_range += 1;
                obs.class_if(i == 0 && *l > 0, "range-on-first-token-of-line>0");
                obs.class_if(i == 0 && *l == 0, "range-on-first-token-of-line-0");
                obs.class_if(i + 1 == toks.len(), "range-on-last-token");
                obs.class_if(i == 15, "range-at-index-15");
                obs.class_if(i == 16, "range-at-index-16");
                obs.class_if(i == 17, "range-at-index-17");
                obs.class_if((31..=32).contains(&i), "range-at-index-31/32");
                obs.class_if(i >= 33, "range-at-index>=33");
                obs.class_if(i >= 64, "range-at-index>=64");
                obs.class_if(i >= 128, "range-at-index>=128");
                obs.class_if(i >= 512, "range-at-index>=512");
                obs.class_if(i >= 768, "range-at-index>=768");
                obs.class_if(t.src.is_none(), "sourceless-range");
                obs.class_if(i > 0 && toks[..i].windows(2).any(|w| w[0] == w[1]), "exact-duplicates-before-range");
            } else {
                n_plain += 1;
            }
        }
        obs.class_if(toks.iter().filter(|t| t.range).count() >= 2, "several-ranges-on-a-line");
        if let Some(first) = toks.iter().position(|t| t.range) {
            obs.class_if(first >= 16, "first-range-of-line-at-index>=16");
            obs.class_if(first >= 32, "first-range-of-line-at-index>=32");
        }
        obs.class_if(!toks.is_empty() && toks.iter().all(|t| t.range), "all-tokens-of-a-line-ranges");
    }
    obs.class_if(n_range == 0, "no-range");
    obs.class_if(c.pad > 0 && n_range > 0, "rangeMappings-with-trailing-zero-digits");
    obs.class(match m.effective_route() {
        Route::Builder => "route:builder",
        Route::Raw => "route:raw",
        Route::Doc => "route:decoded",
    });
    if n_range >= 1 && n_plain >= 1 && by_line.len() >= 2 {
        obs.nontrivial();
    }
    ensure!(true, "");
    Verdict::Pass
}

fn subs() -> Vec<Sub> {
    vec![
        enum_sub("exhaustive_small", exhaustive, check),
        gen_sub("random", random, |t| t.pick(6_000, 200_000), check),
    ]
}

pub const DEF: PropertyDef = PropertyDef {
    id: "C07",
    rule: "exhaustive_small: every shape with <= 3 (thorough 4) lines x <= 4 tokens per line x every subset of range flags x {consecutive, \
           gapped lines}, routes cycled. random: 1..7 lines with gaps, 0..45(90), sometimes 60..150(400) or 255..1025 tokens per line with token counts forced onto 15..18 and \
           31..34, exact duplicates, sourceless range tokens, forced first/last/all-range lines. Oracles: decode of an independently written \
           document, independent reading of the emitted mappings+rangeMappings, flags after ser+decode, lookup shift model; the last three again on the map composed (adjust_mappings) with an identity adjustment that cuts every stretch into pieces. Random maps carry contents / root / ignore list / debug id / file next to the range flags; on every looked-up token (get_src_line,get_src_col), get_src(), to_tuple() and the DecodedMap-level lookup must agree. Non-trivial = \
           >= 1 range and >= 1 non-range token on >= 2 lines",
    assumptions: &[
        "documents are written without empty segments (how a range bit counts empty segments is not stated)",
        "a shifted column that would exceed u32::MAX is executed for crash-freedom only",
    ],
    subs,
};
