//! C03 — encoder output is valid v3 that any conforming reader decodes identically.

use proptest::prelude::*;
use serde::{Deserialize, Serialize};
use serde_json::Value;

use super::common::*;
use crate::engine::{gen_sub, Obs, PropertyDef, Sub, Tier, Verdict};
use crate::model::*;

#[derive(Clone, Debug, Hash, Serialize, Deserialize)]
pub struct Case {
    pub base: MAny,
    pub producer: Producer,
}

pub fn case_strategy(tier: Tier) -> BoxedStrategy<Case> {
    let p = MMParams::regular(tier);
    let small = MMParams {
        max_tokens: 24,
        edge_values: false,
        big_lines: false,
        ..p
    };
    prop_oneof![
        // regular maps; adjust/flatten want small coordinates
        4 => (mm_strategy(p), prop_oneof![
                3 => Just(Producer::Direct),
                1 => Just(Producer::RoundTrip),
                2 => (any::<bool>(), any::<bool>(), prefixes_strategy())
                    .prop_map(|(names, contents, prefixes)| Producer::Rewrite { names, contents, prefixes }),
             ]).prop_map(|(m, producer)| Case { base: MAny::Regular(m), producer }),
        4 => (mm_strategy(small), producer_for_regular(tier))
            .prop_map(|(m, producer)| Case { base: MAny::Regular(m), producer }),
        2 => (hermes_strategy(small), prop_oneof![
                2 => Just(Producer::Direct),
                1 => Just(Producer::RoundTrip),
                2 => (any::<bool>(), any::<bool>(), prefixes_strategy())
                    .prop_map(|(names, contents, prefixes)| Producer::Rewrite { names, contents, prefixes }),
             ]).prop_map(|(h, producer)| Case { base: MAny::Hermes(h), producer }),
        3 => (index_strategy(small, 2), prop_oneof![
                2 => Just(Producer::Direct),
                1 => Just(Producer::RoundTrip),
                2 => Just(Producer::Flatten),
             ]).prop_map(|(i, producer)| Case { base: MAny::Index(i), producer }),
    ]
    .boxed()
}

fn classify(c: &Case, obs: &mut Obs) {
    obs.class(match &c.base {
        MAny::Regular(_) => "kind:regular",
        MAny::Hermes(_) => "kind:hermes",
        MAny::Index(_) => "kind:index",
    });
    obs.class(match &c.producer {
        Producer::Direct => "via:direct",
        Producer::Rewrite { .. } => "via:rewrite",
        Producer::WrapFlatten { .. } => "via:wrap+flatten",
        Producer::Flatten => "via:flatten",
        Producer::Adjust(_) => "via:adjust_mappings",
        Producer::RoundTrip => "via:roundtrip",
    });
    if let MAny::Regular(m) = &c.base {
        obs.class(match m.effective_route() {
            Route::Builder => "route:builder",
            Route::Raw => "route:raw",
            Route::Doc => "route:decoded",
        });
    }
}

pub fn nontrivial_map(m: &MM) -> bool {
    let lines: std::collections::HashSet<u32> = m.tokens.iter().map(|t| t.dl).collect();
    let mut pos: Vec<(u32, u32)> = m.tokens.iter().map(|t| (t.dl, t.dc)).collect();
    pos.sort();
    let dup = pos.windows(2).any(|w| w[0] == w[1]);
    let sourceless = m.tokens.iter().any(|t| t.src.is_none());
    let skipped = lines.iter().max().map(|mx| (*mx as usize + 1) > lines.len()).unwrap_or(false);
    let special = m
        .sources
        .iter()
        .chain(m.names.iter())
        .any(|s| !s.is_ascii() || s.contains(['"', '\\', '\n', '\u{0}']));
    m.tokens.len() >= 3
        && lines.len() >= 2
        && (dup
            || sourceless
            || skipped
            || special
            || m.contents.iter().any(|c| c.is_some())
            || !m.ignore.is_empty()
            || m.debug_id.is_some()
            || m.root.is_some())
}

pub fn nontrivial_any(a: &MAny) -> bool {
    match a {
        MAny::Regular(m) => nontrivial_map(m),
        MAny::Hermes(h) => nontrivial_map(&h.map) && h.fb.iter().any(|f| f.as_ref().map(|v| !v.is_empty()).unwrap_or(false)),
        MAny::Index(i) => i.sections.iter().any(|s| s.map.as_ref().map(nontrivial_any).unwrap_or(false)) && i.sections.len() >= 2,
    }
}

fn check(c: &Case, obs: &mut Obs) -> Verdict {
    classify(c, obs);
    let base = match c.base.build() {
        Ok(m) => m,
        Err(e) => return Verdict::Fail(format!("building the model failed: {e}")),
    };
    let m = match produce(base, &c.producer) {
        Ok(m) => m,
        Err(e) if e.starts_with("n/a:") => {
            obs.class("producer-not-applicable");
            return Verdict::Pass;
        }
        Err(e) => return Verdict::Fail(e),
    };
    let bytes = match ser(&m) {
        Ok(b) => b,
        Err(e) => return Verdict::Fail(e),
    };
    let v: Value = match serde_json::from_slice(&bytes) {
        Ok(v) => v,
        Err(e) => return Verdict::Fail(format!("serialised form is not JSON: {e}")),
    };
    if let Err(e) = check_serialized_any(&m, &v, false) {
        return Verdict::Fail(format!("{e}; output={}", String::from_utf8_lossy(&bytes)));
    }
    if nontrivial_any(&c.base) {
        obs.nontrivial();
    }
    Verdict::Pass
}

fn large(t: Tier) -> BoxedStrategy<Case> {
    let p = MMParams { max_tokens: t.pick(1200, 5000), ..MMParams::regular(t) };
    (mm_strategy(p), prop_oneof![2 => Just(Producer::Direct), 1 => Just(Producer::RoundTrip), 1 => Just(Producer::Rewrite { names: true, contents: true, prefixes: vec![] })])
        .prop_map(|(m, producer)| Case { base: MAny::Regular(m), producer })
        .boxed()
}

fn deep(t: Tier) -> BoxedStrategy<Case> {
    let p = MMParams { max_tokens: 8, big_lines: false, ..MMParams::regular(t) };
    (deep_index_strategy(p, 30), prop_oneof![Just(Producer::Direct), Just(Producer::RoundTrip), Just(Producer::Flatten)])
        .prop_map(|(i, producer)| Case { base: MAny::Index(i), producer })
        .boxed()
}

/// many tokens on very few positions, string tables with repeated entries
fn crowded(t: Tier) -> BoxedStrategy<Case> {
    let p = MMParams { max_tokens: t.pick(40, 120), ..MMParams::regular(t) };
    (mm_strategy(p), 1u32..3, 1u32..4, prop_oneof![2 => Just(Producer::Direct), 1 => Just(Producer::RoundTrip)])
        .prop_map(|(mut m, ml, mc, producer)| {
            for tok in &mut m.tokens {
                tok.dl %= ml;
                tok.dc %= mc;
                if let Some(s) = &mut tok.src {
                    s.line %= 2;
                    s.col %= 2;
                }
            }
            for i in 1..m.sources.len() {
                if i % 2 == 1 {
                    m.sources[i] = m.sources[0].clone();
                }
            }
            for i in 1..m.names.len() {
                if i % 2 == 0 {
                    m.names[i] = m.names[0].clone();
                }
            }
            Case { base: MAny::Regular(m), producer }
        })
        .boxed()
}

fn subs() -> Vec<Sub> {
    vec![
        gen_sub("deep_nesting", deep, |t| t.pick(600, 12_000), check),
        gen_sub("crowded_positions", crowded, |t| t.pick(4_000, 80_000), check),
        gen_sub("large_maps", large, |t| t.pick(150, 3_000), check),
        gen_sub("serialised", case_strategy, |t| t.pick(30_000, 600_000), check),
    ]
}

pub const DEF: PropertyDef = PropertyDef {
    id: "C03",
    rule: "model maps (regular / Hermes / nested index) built through builder, raw constructor or decoding, optionally passed through \
           rewrite / flatten / adjust_mappings / a round trip; the serialised JSON is read with serde_json::Value and an independent \
           mappings reader and compared with the map's public accessors. Non-trivial = >= 3 tokens on >= 2 lines plus one of \
           {sourceless token, duplicate position, skipped line, JSON-special or non-ASCII string, contents, ignore list, debug id, root}; \
           Hermes additionally a function map; index: >= 2 sections one of which is non-trivial",
    assumptions: &[
        "maps are well-formed in the sense of C01 (indices in range, no range tokens — range serialisation is C07)",
        "exact consecutive duplicate tokens are normalised on both sides (the encoder drops them, C01 allows it)",
    ],
    subs,
};
