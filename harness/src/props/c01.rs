//! C01 — writing a map and reading it back yields the same map; serialisation of decoded
//! maps is idempotent.

use proptest::prelude::*;
use serde::{Deserialize, Serialize};
use sourcemap::{decode, DecodedMap, SourceMap, SourceMapHermes, SourceMapIndex};

use super::c02::doc_strategy;
use super::c03::nontrivial_any;
use super::common::*;
use crate::engine::{gen_sub, guard, Obs, PropertyDef, Sub, Tier, Verdict};
use crate::model::*;
use crate::{ensure, ensure_eq};

#[derive(Clone, Debug, Hash, Serialize, Deserialize)]
pub enum Case {
    Model(MAny),
    /// a legal but possibly non-canonical document (segments out of order, empty segments,
    /// duplicate positions): decoded first, then the round trip starts from the decoded map
    Doc(DocModel),
}

fn kind(m: &DecodedMap) -> &'static str {
    match m {
        DecodedMap::Regular(_) => "regular",
        DecodedMap::Index(_) => "index",
        DecodedMap::Hermes(_) => "hermes",
    }
}

fn is_decoded_model(a: &MAny) -> bool {
    match a {
        MAny::Regular(m) => m.effective_route() == Route::Doc,
        MAny::Hermes(_) => true,
        MAny::Index(i) => !i.via_api,
    }
}

fn cmp_model_obs(a: &MAny, m: &DecodedMap) -> Verdict {
    // the built map reports what the model says (regular part only; ties canonical)
    match (a, m) {
        (MAny::Regular(mm), DecodedMap::Regular(sm)) => {
            let got = obs_map(sm);
            ensure!(got.positions_sorted(), "built map is not ordered by generated position");
            ensure_eq!(got.canonical(), mm.expected_obs(), "built map differs from its model ({:?})", mm.effective_route());
        }
        (MAny::Hermes(h), DecodedMap::Hermes(sm)) => {
            ensure_eq!(obs_map(sm).canonical(), h.map.expected_obs(), "built Hermes map differs from its model");
        }
        (MAny::Index(i), DecodedMap::Index(smi)) => {
            ensure_eq!(smi.get_section_count() as usize, i.sections.len(), "section count");
            for (k, s) in i.sections.iter().enumerate() {
                let sec = smi.get_section(k as u32).unwrap();
                ensure_eq!(sec.get_offset(), s.off, "section {k} offset");
                ensure_eq!(sec.get_url().map(str::to_string), s.url.clone(), "section {k} url");
                match (&s.map, sec.get_sourcemap()) {
                    (None, None) => {}
                    (Some(a), Some(m)) => {
                        let v = cmp_model_obs(a, m);
                        if !v.is_pass() {
                            return v;
                        }
                    }
                    _ => return Verdict::Fail(format!("section {k}: embedded map presence differs from the model")),
                }
            }
        }
        _ => return Verdict::Fail(format!("built map has kind {} but the model is {:?}", kind(m), std::mem::discriminant(a))),
    }
    Verdict::Pass
}

fn roundtrip(m: &DecodedMap, from_decoding: bool, obs: &mut Obs) -> Verdict {
    let b1 = match ser(m) {
        Ok(b) => b,
        Err(e) => return Verdict::Fail(e),
    };
    // the type-specific writers produce the same bytes as DecodedMap::to_writer
    let mut alt = vec![];
    let alt_ok = guard(|| match m {
        DecodedMap::Regular(sm) => sm.to_writer(&mut alt),
        DecodedMap::Index(i) => i.to_writer(&mut alt),
        DecodedMap::Hermes(h) => h.to_writer(&mut alt),
    });
    ensure!(matches!(alt_ok, Ok(Ok(()))), "type-specific to_writer failed: {alt_ok:?}");
    ensure_eq!(alt, b1, "type-specific to_writer and DecodedMap::to_writer differ");

    let d1 = match dec(&b1) {
        Ok(d) => d,
        Err(e) => return Verdict::Fail(format!("{e}; written={}", String::from_utf8_lossy(&b1))),
    };
    ensure_eq!(kind(&d1), kind(m), "kind changed by the round trip");
    let want = obs_any(m).dedup();
    let got = obs_any(&d1).dedup();
    if got != want {
        return Verdict::Fail(format!(
            "decoded map differs from the written one: written obs={want:?} decoded obs={got:?} bytes={}",
            String::from_utf8_lossy(&b1)
        ));
    }
    // reader path and typed entry points agree with the slice path
    let r = match guard(|| decode(&b1[..])) {
        Ok(Ok(r)) => r,
        other => return Verdict::Fail(format!("decode(reader) of written bytes: {:?}", other.map(|r| r.map(|_| ())))),
    };
    ensure_eq!(obs_any(&r), obs_any(&d1), "decode(reader) and decode_slice differ on written bytes");
    let typed_ok = match m {
        DecodedMap::Regular(_) => guard(|| SourceMap::from_slice(&b1).is_ok() && SourceMap::from_reader(&b1[..]).is_ok()),
        DecodedMap::Index(_) => guard(|| SourceMapIndex::from_slice(&b1).is_ok() && SourceMapIndex::from_reader(&b1[..]).is_ok()),
        DecodedMap::Hermes(_) => guard(|| SourceMapHermes::from_slice(&b1).is_ok() && SourceMapHermes::from_reader(&b1[..]).is_ok()),
    };
    ensure!(typed_ok == Ok(true), "typed from_slice/from_reader rejects the written {} map: {typed_ok:?}", kind(m));

    // idempotence
    let b2 = match ser(&d1) {
        Ok(b) => b,
        Err(e) => return Verdict::Fail(e),
    };
    let d2 = match dec(&b2) {
        Ok(d) => d,
        Err(e) => return Verdict::Fail(e),
    };
    let b3 = match ser(&d2) {
        Ok(b) => b,
        Err(e) => return Verdict::Fail(e),
    };
    if b2 != b3 {
        return Verdict::Fail(format!(
            "serialise∘decode∘serialise of a decoded map is not stable: second={} third={}",
            String::from_utf8_lossy(&b2),
            String::from_utf8_lossy(&b3)
        ));
    }
    if from_decoding {
        obs.class("starts-from-decoded-map");
        if b1 != b2 {
            return Verdict::Fail(format!(
                "serialising a decoded map, decoding and serialising again changes the bytes: first={} second={}",
                String::from_utf8_lossy(&b1),
                String::from_utf8_lossy(&b2)
            ));
        }
    }
    Verdict::Pass
}

fn check(c: &Case, obs: &mut Obs) -> Verdict {
    match c {
        Case::Model(a) => {
            let m = match a.build() {
                Ok(m) => m,
                Err(e) => return Verdict::Fail(format!("building the model failed: {e}")),
            };
            obs.class(match a {
                MAny::Regular(_) => "kind:regular",
                MAny::Hermes(_) => "kind:hermes",
                MAny::Index(_) => "kind:index",
            });
            if let MAny::Regular(mm) = a {
                obs.class(match mm.effective_route() {
                    Route::Builder => "route:builder",
                    Route::Raw => "route:raw",
                    Route::Doc => "route:decoded",
                });
            }
            let v = cmp_model_obs(a, &m);
            if !v.is_pass() {
                return v;
            }
            let v = roundtrip(&m, is_decoded_model(a), obs);
            if !v.is_pass() {
                return v;
            }
            if let MAny::Index(i) = a {
                obs.class_if(i.sections.iter().any(|s| matches!(s.map, Some(MAny::Index(_)))), "nested-index");
                obs.class_if(i.sections.iter().any(|s| s.map.is_none()), "url-only-section");
            }
            if nontrivial_any(a) {
                obs.nontrivial();
            }
            Verdict::Pass
        }
        Case::Doc(d) => {
            let text = d.to_json();
            let m = match dec(text.as_bytes()) {
                Ok(m) => m,
                Err(e) => return Verdict::Fail(format!("well-formed document rejected: {e}; doc={text}")),
            };
            obs.class("non-canonical-document");
            let v = roundtrip(&m, true, obs);
            if !v.is_pass() {
                return v;
            }
            let toks: Vec<(usize, u32)> = d
                .lines
                .iter()
                .enumerate()
                .flat_map(|(l, segs)| segs.iter().flatten().map(move |s| (l, s.0)))
                .collect();
            let mut sorted = toks.clone();
            sorted.sort();
            let out_of_order = sorted != toks;
            let dup = sorted.windows(2).any(|w| w[0] == w[1]);
            obs.class_if(out_of_order, "segments-out-of-column-order");
            obs.class_if(dup, "duplicate-positions");
            if toks.len() >= 3 && (out_of_order || dup) {
                obs.nontrivial();
            }
            Verdict::Pass
        }
    }
}

fn regular(t: Tier) -> BoxedStrategy<Case> {
    mm_strategy(MMParams::regular(t)).prop_map(|m| Case::Model(MAny::Regular(m))).boxed()
}

fn index(t: Tier) -> BoxedStrategy<Case> {
    let p = MMParams { max_tokens: t.pick(16, 60), ..MMParams::regular(t) };
    (index_strategy(p, 2), any::<u8>())
        .prop_map(|(mut i, tie)| {
            // C01 does not ask for strictly increasing offsets (C08 does): in a sixth of the cases two
            // neighbouring sections share an offset (an empty module followed by the next one); they are
            // listed in offset order, so "the same section offsets/URLs" has one reading
            if tie % 6 == 0 && i.sections.len() >= 2 {
                let k = (tie as usize / 6) % (i.sections.len() - 1);
                i.sections[k + 1].off = i.sections[k].off;
                i.order = vec![];
            }
            Case::Model(MAny::Index(i))
        })
        .boxed()
}

/// The round trip of a map that was *produced* by the crate (rewrite of a regular or Hermes map,
/// flatten of an index, adjust_mappings, an earlier round trip) rather than built from parts.
fn check_produced(c: &super::c03::Case, obs: &mut Obs) -> Verdict {
    let base = match c.base.build() {
        Ok(m) => m,
        Err(e) => return Verdict::Fail(format!("building the model failed: {e}")),
    };
    let m = match produce(base, &c.producer) {
        Ok(m) => m,
        Err(e) if e.starts_with("n/a:") => return Verdict::Pass,
        Err(e) => return Verdict::Fail(e),
    };
    obs.class(match (&c.base, &c.producer) {
        (MAny::Hermes(_), Producer::Rewrite { .. }) => "rewritten-hermes-map",
        (MAny::Index(_), Producer::Flatten) => "flattened-index",
        (_, Producer::Rewrite { .. }) => "rewritten-map",
        (_, Producer::Adjust(_)) => "adjusted-map",
        (_, Producer::WrapFlatten { .. }) => "wrapped-and-flattened-map",
        _ => "other",
    });
    match roundtrip(&m, false, obs) {
        Verdict::Fail(e) => Verdict::Fail(format!("map produced by {:?}: {e}", c.producer)),
        v => {
            if !matches!(c.producer, Producer::Direct) && nontrivial_any(&c.base) {
                obs.nontrivial();
            }
            v
        }
    }
}

fn hermes(t: Tier) -> BoxedStrategy<Case> {
    let p = MMParams { max_tokens: t.pick(24, 80), ..MMParams::regular(t) };
    hermes_strategy(p).prop_map(|h| Case::Model(MAny::Hermes(h))).boxed()
}

fn large(t: Tier) -> BoxedStrategy<Case> {
    let p = MMParams { max_tokens: t.pick(1200, 5000), ..MMParams::regular(t) };
    mm_strategy(p).prop_map(|m| Case::Model(MAny::Regular(m))).boxed()
}

fn deep(t: Tier) -> BoxedStrategy<Case> {
    let p = MMParams { max_tokens: 8, big_lines: false, ..MMParams::regular(t) };
    deep_index_strategy(p, 30).prop_map(|i| Case::Model(MAny::Index(i))).boxed()
}

/// many tokens on very few positions, string tables with repeated entries
fn crowded(t: Tier) -> BoxedStrategy<Case> {
    let p = MMParams { max_tokens: t.pick(40, 120), ..MMParams::regular(t) };
    (mm_strategy(p), 1u32..3, 1u32..4)
        .prop_map(|(mut m, ml, mc)| {
            for tok in &mut m.tokens {
                tok.dl %= ml;
                tok.dc %= mc;
                if let Some(s) = &mut tok.src {
                    s.line %= 2;
                    s.col %= 2;
                }
            }
            // repeat strings at several indices
            for i in 1..m.sources.len() {
                if i % 2 == 1 {
                    m.sources[i] = m.sources[0].clone();
                }
            }
            for i in 1..m.names.len() {
                if i % 2 == 0 {
                    m.names[i] = m.names[0].clone();
                }
            }
            Case::Model(MAny::Regular(m))
        })
        .boxed()
}

fn docs(t: Tier) -> BoxedStrategy<Case> {
    doc_strategy(t, true).prop_map(Case::Doc).boxed()
}

/// One living object: written, then mutated / used, then written again - every write must read
/// back as the object is *now* (a serialisation cached inside the object would go stale here).
fn check_living(c: &super::c03::HCase, obs: &mut Obs) -> Verdict {
    let mut obj = match super::c03::build_living(c) {
        Ok(o) => o,
        Err(e) => return Verdict::Fail(e),
    };
    obs.class(if c.in_index { "object-inside-index-section" } else { "object-top-level" });
    obs.class_if(c.fb.is_some(), "object-is-a-hermes-map(ops through DerefMut)");
    let v = roundtrip(&obj, false, obs);
    if !v.is_pass() {
        return v;
    }
    let mut mutated = false;
    for (k, op) in c.ops.iter().enumerate() {
        if let Err(e) = super::c03::apply_hop(&mut obj, op, obs) {
            return Verdict::Fail(format!("op {k} {e}"));
        }
        mutated |= super::c03::hop_mutates(op);
        match roundtrip(&obj, false, obs) {
            Verdict::Pass => {}
            Verdict::Fail(m) => return Verdict::Fail(format!("after op {k} {op:?} (ops so far {:?}): {m}", &c.ops[..=k])),
            other => return other,
        }
    }
    if mutated && c.ops.len() >= 3 && c.base.tokens.len() >= 2 {
        obs.nontrivial();
    }
    Verdict::Pass
}

/// The round trip of a map that is the result of 2..4 composed operations.
fn check_composed(c: &super::c03::CCase, obs: &mut Obs) -> Verdict {
    match super::c03::build_composed(c, obs) {
        Ok(Some(m)) => match roundtrip(&m, false, obs) {
            Verdict::Fail(e) => Verdict::Fail(format!("after {:?}: {e}", c.producers)),
            v => {
                if c.producers.iter().filter(|p| !matches!(p, Producer::Direct)).count() >= 2 && c.base.tokens.len() >= 3 {
                    obs.nontrivial();
                }
                v
            }
        },
        Ok(None) => Verdict::Pass,
        Err(e) => Verdict::Fail(e),
    }
}

fn subs() -> Vec<Sub> {
    vec![
        gen_sub("produced_maps", super::c03::case_strategy, |t| t.pick(20_000, 200_000), check_produced),
        gen_sub("composed_operations", super::c03::composed, |t| t.pick(15_000, 150_000), check_composed),
        gen_sub("living_object", super::c03::living, |t| t.pick(16_000, 160_000), check_living),
        gen_sub("large_regular", large, |t| t.pick(300, 3_000), check),
        gen_sub("deep_nesting", deep, |t| t.pick(600, 12_000), check),
        gen_sub("crowded_positions", crowded, |t| t.pick(8_000, 80_000), check),
        gen_sub("regular", regular, |t| t.pick(40_000, 400_000), check),
        gen_sub("index", index, |t| t.pick(10_000, 100_000), check),
        gen_sub("hermes", hermes, |t| t.pick(10_000, 100_000), check),
        gen_sub("noncanonical_documents", docs, |t| t.pick(40_000, 300_000), check),
    ]
}

pub const DEF: PropertyDef = PropertyDef {
    id: "C01",
    rule: "model maps (regular via builder / raw constructor / decoding; nested indexes with url-only sections; Hermes maps) and decoded \
           non-canonical documents; ser -> decode compared through an observation function over public accessors (token sequence up to \
           exact consecutive duplicates), ser∘dec∘ser compared byte for byte. Also: living_object (one map - top level, inside an index section, or a Hermes map reached through DerefMut - written, then changed/used through setters, adjust_mappings, lookups, to_data_url, clone, a failing writer, and written again after every step), composed_operations (the map is the result of 2..4 producers), produced_maps (rewritten / flattened / adjusted maps incl. Hermes); index sections may share an offset. Non-trivial = >= 3 tokens on >= 2 lines with one of \
           {sourceless token, duplicate position, skipped line, special string, contents, ignore list, debug id, root, function map, \
           nested section}; documents: >= 3 tokens with segments out of column order or duplicate positions",
    assumptions: &[
        "well-formed maps only (indices in range), no range tokens (C07)",
        "PDB-2.0 style debug ids with age 0 are not generated (third-party debugid Display/FromStr asymmetry, finding K3 under C05)",
    ],
    subs,
};
