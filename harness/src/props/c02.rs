//! C02 — decoding follows the Source Map v3 wire format.
//!
//! Documents are written by the independent encoder from an abstract document model; the
//! expected map is computed from the model directly (no decoding involved).

use proptest::collection::vec;
use proptest::prelude::*;
use serde::{Deserialize, Serialize};
use sourcemap::{decode, decode_slice, DecodedMap, SourceMap};

use crate::engine::{gen_sub, Obs, PropertyDef, Sub, Tier, Verdict};
use crate::model::*;
use crate::refimpl::v3::{self, RefSrc, SegAbs};
use crate::{ensure, ensure_eq, guarded};

#[derive(Clone, Debug, Hash, Serialize, Deserialize)]
pub struct IndexDoc {
    pub file: K<String>,
    /// (offset, url, embedded document) in the order written
    pub sections: Vec<((u32, u32), Option<String>, Option<DocModel>)>,
    pub style: JsonStyle,
    pub extra_top_keys: bool,
}

#[derive(Clone, Debug, Hash, Serialize, Deserialize)]
pub enum Case {
    Doc(DocModel),
    Index(IndexDoc),
}

fn k_of<T: Clone + std::fmt::Debug + 'static>(
    s: BoxedStrategy<T>,
    w_absent: u32,
    w_null: u32,
    w_val: u32,
) -> BoxedStrategy<K<T>> {
    prop_oneof![
        w_absent => Just(K::Absent),
        w_null => Just(K::Null),
        w_val => s.prop_map(K::Val),
    ]
    .boxed()
}

fn seg_strategy(ns: usize, nn: usize) -> BoxedStrategy<SegAbs> {
    let val = small_or_edge();
    let col = prop_oneof![4 => 0u32..8, 3 => 0u32..300, 1 => proptest::sample::select(EDGE_U32)];
    if ns == 0 {
        return prop_oneof![1 => Just(None), 8 => col.prop_map(|c| Some((c, None)))].boxed();
    }
    let name: BoxedStrategy<Option<u32>> = if nn == 0 {
        Just(None).boxed()
    } else {
        prop_oneof![1 => Just(None), 1 => (0..nn as u32).prop_map(Some)].boxed()
    };
    prop_oneof![
        1 => Just(None),
        2 => col.clone().prop_map(|c| Some((c, None))),
        8 => (col, 0..ns as u32, val.clone(), val, name)
            .prop_map(|(c, id, line, scol, name)| Some((c, Some(RefSrc { id, line, col: scol, name })))),
    ]
    .boxed()
}

pub fn doc_strategy(tier: Tier, allow_hermes: bool) -> BoxedStrategy<DocModel> {
    doc_strategy_sized(allow_hermes, tier.pick(8usize, 40), tier.pick(10usize, 60))
}

pub fn doc_strategy_sized(allow_hermes: bool, max_lines: usize, max_segs: usize) -> BoxedStrategy<DocModel> {
    (
        prop_oneof![1 => Just(None), 8 => vec(prop_oneof![1 => Just(None), 6 => pool_string(SRC_POOL).prop_map(Some)], 0..5).prop_map(Some)],
        prop_oneof![1 => Just(None), 8 => vec(prop_oneof![5 => pool_string(NAME_POOL).prop_map(DName::Str), 1 => (-3i64..100_000).prop_map(DName::Int)], 0..5).prop_map(Some)],
    )
        .prop_flat_map(move |(sources, names)| {
            let ns = sources.as_ref().map(|v| v.len()).unwrap_or(0);
            let nn = names.as_ref().map(|v| v.len()).unwrap_or(0);
            let line = prop_oneof![
                2 => Just(vec![]),
                6 => vec(seg_strategy(ns, nn), 1..=max_segs / 2),
                1 => vec(seg_strategy(ns, nn), 1..=max_segs),
            ];
            let fb: BoxedStrategy<Option<Vec<Option<Vec<FbMap>>>>> = if allow_hermes {
                prop_oneof![
                    4 => Just(None),
                    1 => vec(prop_oneof![1 => Just(None), 1 => Just(Some(vec![])), 2 => vec(fbmap_strategy(), 1..3).prop_map(Some)], 0..=ns + 1).prop_map(Some),
                ]
                .boxed()
            } else {
                Just(None).boxed()
            };
            (
                Just(sources),
                Just(names),
                vec(line, 0..=max_lines),
                (
                    k_of(vec(prop_oneof![1 => Just(None), 1 => pool_string(CONTENT_POOL).prop_map(Some)], 0..=ns + 1).boxed(), 2, 1, 3),
                    k_of(pool_string(ROOT_POOL), 2, 1, 4),
                    k_of(pool_string(FILE_POOL), 2, 1, 3),
                    k_of(vec(0u32..(ns as u32 + 2), 0..4).boxed(), 3, 1, 2),
                ),
                (
                    k_of(proptest::sample::select(DEBUG_IDS).prop_map(|s| s.to_string()).boxed(), 3, 1, 2),
                    k_of(proptest::sample::select(DEBUG_IDS).prop_map(|s| s.to_string()).boxed(), 3, 1, 2),
                    prop_oneof![1 => Just(K::Absent), 1 => Just(K::Null), 6 => Just(K::Val(3u32))],
                    fb,
                    json_style(),
                    any::<bool>(),
                ),
            )
        })
        .prop_map(
            |(sources, names, lines, (contents, root, file, ignore), (debug_id, debug_id_new, version, fb_sources, style, unknown_keys))| DocModel {
                lines,
                range_lines: None,
                range_pad: 0,
                version,
                sources: sources.map(K::Val).unwrap_or(K::Absent),
                names: names.map(K::Val).unwrap_or(K::Absent),
                contents,
                root,
                file,
                ignore,
                debug_id,
                debug_id_new,
                fb_sources,
                style,
                unknown_keys,
                mappings_override: None,
            },
        )
        .boxed()
}

fn index_doc_strategy(tier: Tier) -> BoxedStrategy<IndexDoc> {
    let section = (
        (0u32..5, small_or_edge()),
        prop_oneof![2 => Just(None), 1 => pool_string(SRC_POOL).prop_map(Some)],
        prop_oneof![1 => Just(None), 6 => doc_strategy(tier, true).prop_map(|mut d| { d.style.header = None; Some(d) })],
    );
    (
        vec(section, 0..5),
        k_of(pool_string(FILE_POOL), 1, 1, 2),
        json_style(),
        any::<bool>(),
        any::<u64>(),
    )
        .prop_map(|(secs, file, style, extra_top_keys, shuffle)| {
            let mut line = 0u32;
            let mut sections: Vec<_> = secs
                .into_iter()
                .map(|((dl, col), url, doc)| {
                    line += dl + 1;
                    ((line - 1, col), url, doc)
                })
                .collect();
            // deterministic shuffle of the written order (the decoder must sort)
            let n = sections.len();
            let mut s = shuffle;
            for i in (1..n).rev() {
                s = s.wrapping_mul(6364136223846793005).wrapping_add(1442695040888963407);
                let j = (s >> 33) as usize % (i + 1);
                sections.swap(i, j);
            }
            IndexDoc {
                file,
                sections,
                style,
                extra_top_keys,
            }
        })
        .boxed()
}

/// Expected observation of a regular/Hermes document, from the model alone.
pub fn expected_of_doc(d: &DocModel) -> ObsMap {
    let sources: Vec<String> = d
        .sources
        .val()
        .map(|v| v.iter().map(|s| s.clone().unwrap_or_default()).collect())
        .unwrap_or_default();
    let names: Vec<String> = d
        .names
        .val()
        .map(|v| v.iter().map(|n| n.text()).collect())
        .unwrap_or_default();
    let root = d.root.val().cloned();
    let joined: Vec<String> = sources
        .iter()
        .map(|s| v3::join_source(root.as_deref(), s))
        .collect();
    let mut tokens = vec![];
    for (li, line) in d.lines.iter().enumerate() {
        for seg in line.iter().flatten() {
            tokens.push(ObsTok {
                dl: li as u32,
                dc: seg.0,
                src: seg.1.as_ref().map(|s| ObsSrc {
                    source: joined[s.id as usize].clone(),
                    line: s.line,
                    col: s.col,
                    name: s.name.map(|n| names[n as usize].clone()),
                }),
                range: false,
            });
        }
    }
    tokens.sort();
    let mut contents: Vec<Option<String>> = d.contents.val().cloned().unwrap_or_default();
    contents.resize(sources.len(), None);
    let mut ignore = d.ignore.val().cloned().unwrap_or_default();
    ignore.sort();
    ignore.dedup();
    let dbg = d
        .debug_id
        .val()
        .or(d.debug_id_new.val())
        .map(|s| s.parse::<debugid::DebugId>().expect("pool ids parse").to_string());
    ObsMap {
        tokens,
        sources: joined,
        names,
        contents,
        file: d.file.val().cloned(),
        root,
        debug_id: dbg,
        ignore,
    }
}

#[derive(Default)]
struct Shape {
    nonempty_lines: usize,
    neg: [bool; 5],
    big: bool,
    one: bool,
    five: bool,
    empty_seg: bool,
    empty_line: bool,
}

fn shape_of(d: &DocModel) -> Shape {
    let mut s = Shape::default();
    let mut prev = [0i64; 5];
    for line in &d.lines {
        if line.iter().flatten().next().is_some() {
            s.nonempty_lines += 1;
        } else {
            s.empty_line = true;
        }
        prev[0] = 0;
        for seg in line {
            let Some((c, src)) = seg else {
                s.empty_seg = true;
                continue;
            };
            let mut cur = vec![(0usize, i64::from(*c))];
            match src {
                None => s.one = true,
                Some(r) => {
                    cur.push((1, i64::from(r.id)));
                    cur.push((2, i64::from(r.line)));
                    cur.push((3, i64::from(r.col)));
                    if let Some(n) = r.name {
                        cur.push((4, i64::from(n)));
                        s.five = true;
                    }
                }
            }
            for (f, v) in cur {
                let delta = v - prev[f];
                if delta < 0 {
                    s.neg[f] = true;
                }
                if delta.abs() >= (1 << 31) {
                    s.big = true;
                }
                prev[f] = v;
            }
        }
    }
    s
}

fn compare_regular(sm: &SourceMap, d: &DocModel, how: &str) -> Verdict {
    let got = guarded!(format!("observing {how}"), obs_map(sm));
    ensure!(got.positions_sorted(), "{how}: tokens are not ordered by generated position: {:?}", got.tokens);
    let want = expected_of_doc(d);
    let got = got.canonical();
    ensure_eq!(got.tokens, want.tokens, "{how}: tokens differ from the independent reading");
    ensure_eq!(got.sources, want.sources, "{how}: sources (null -> \"\", joined with sourceRoot)");
    ensure_eq!(got.names, want.names, "{how}: names (numbers as decimal text)");
    ensure_eq!(got.contents, want.contents, "{how}: sourcesContent");
    ensure_eq!(got.file, want.file, "{how}: file");
    ensure_eq!(got.root, want.root, "{how}: sourceRoot");
    ensure_eq!(got.debug_id, want.debug_id, "{how}: debug id (debug_id wins over debugId)");
    ensure_eq!(got.ignore, want.ignore, "{how}: ignoreList");
    Verdict::Pass
}

fn compare_decoded(dm: &DecodedMap, d: &DocModel, how: &str) -> Verdict {
    match (dm, d.fb_sources.is_some()) {
        (DecodedMap::Regular(sm), false) => compare_regular(sm, d, how),
        (DecodedMap::Hermes(h), true) => compare_regular(h, d, how),
        (DecodedMap::Regular(_), true) => Verdict::Fail(format!("{how}: document with x_facebook_sources decoded as a regular map")),
        (DecodedMap::Hermes(_), false) => Verdict::Fail(format!("{how}: document without x_facebook_sources decoded as a Hermes map")),
        (DecodedMap::Index(_), _) => Verdict::Fail(format!("{how}: document without sections decoded as an index")),
    }
}

fn check_doc(d: &DocModel, obs: &mut Obs) -> Verdict {
    let text = d.to_json();
    let bytes = text.as_bytes();
    let a = match guarded!("decode_slice", decode_slice(bytes)) {
        Ok(m) => m,
        Err(e) => return Verdict::Fail(format!("decode_slice rejects a well-formed document: {e}; doc={text}")),
    };
    let v = compare_decoded(&a, d, "decode_slice");
    if !v.is_pass() {
        return v;
    }
    let b = match guarded!("decode(reader)", decode(bytes)) {
        Ok(m) => m,
        Err(e) => return Verdict::Fail(format!("decode(reader) rejects a well-formed document: {e}; doc={text}")),
    };
    let v = compare_decoded(&b, d, "decode(reader)");
    if !v.is_pass() {
        return v;
    }
    if d.fb_sources.is_none() {
        match guarded!("SourceMap::from_slice", SourceMap::from_slice(bytes)) {
            Ok(sm) => {
                let v = compare_regular(&sm, d, "SourceMap::from_slice");
                if !v.is_pass() {
                    return v;
                }
            }
            Err(e) => return Verdict::Fail(format!("SourceMap::from_slice rejects a regular document: {e}")),
        }
    } else {
        ensure!(
            guarded!("SourceMap::from_slice", SourceMap::from_slice(bytes)).is_err(),
            "SourceMap::from_slice accepts a Hermes document as regular"
        );
    }
    // the format does not demand the shortest spelling of a number: the same document with every
    // value padded by one zero group ("C" = "iA" = 1) decodes to the same map
    {
        let canonical = d.mappings();
        let mut padded = String::with_capacity(canonical.len() * 2);
        let mut seg = String::new();
        let mut flush = |seg: &mut String, out: &mut String| {
            if seg.is_empty() {
                return;
            }
            match crate::refimpl::vlq::read(seg) {
                Ok(vals) => {
                    for v in vals {
                        let t = crate::refimpl::vlq::write_all(&[v.value as i64]);
                        if t.len() >= 12 {
                            out.push_str(&t);
                        } else {
                            let (head, last) = t.split_at(t.len() - 1);
                            let dgt = crate::refimpl::vlq::digit_of(last.as_bytes()[0]).expect("own writer");
                            out.push_str(head);
                            out.push(crate::refimpl::vlq::ALPHABET[(dgt + 32) as usize] as char);
                            out.push('A');
                        }
                    }
                }
                Err(_) => out.push_str(seg),
            }
            seg.clear();
        };
        for ch in canonical.chars() {
            if ch == ',' || ch == ';' {
                flush(&mut seg, &mut padded);
                padded.push(ch);
            } else {
                seg.push(ch);
            }
        }
        flush(&mut seg, &mut padded);
        if padded != canonical {
            let mut d2 = d.clone();
            d2.mappings_override = Some(padded.clone());
            let t2 = d2.to_json();
            match guarded!("decode_slice (padded values)", decode_slice(t2.as_bytes())) {
                Ok(m) => {
                    let v = compare_decoded(&m, d, "decode_slice of the same document with padded VLQ values");
                    if !v.is_pass() {
                        return v;
                    }
                    obs.class("also-with-non-canonical(padded)-vlq-values");
                }
                Err(e) => return Verdict::Fail(format!("decode_slice rejects the document when its VLQ values are padded with a zero group ({padded:?}): {e}")),
            }
        }
    }
    let s = shape_of(d);
    obs.class_if(s.empty_line, "empty-line");
    obs.class_if(s.empty_seg, "empty-segment");
    obs.class_if(s.big, "delta>=2^31");
    obs.class_if(s.one, "1-field");
    obs.class_if(s.five, "5-field");
    obs.class_if(d.fb_sources.is_some(), "kind:hermes");
    obs.class_if(d.fb_sources.is_none(), "kind:regular");
    obs.class_if(d.style.header.is_some(), "junk-header");
    obs.class_if(d.debug_id.val().is_some() && d.debug_id_new.val().is_some(), "both-debug-ids");
    obs.class_if(d.debug_id.val().is_none() && d.debug_id_new.val().is_some(), "debugId-only");
    obs.class_if(d.root.val().map(|r| !r.is_empty()).unwrap_or(false), "root");
    obs.class_if(matches!(d.sources, K::Absent), "no-sources-key");
    obs.class_if(d.sources.val().map(|v| v.iter().any(|s| s.is_none())).unwrap_or(false), "null-source");
    obs.class_if(d.names.val().map(|v| v.iter().any(|n| matches!(n, DName::Int(_)))).unwrap_or(false), "int-name");
    obs.class_if(d.contents.val().is_some(), "contents");
    obs.class_if(d.ignore.val().is_some(), "ignoreList");
    obs.class_if(d.unknown_keys, "unknown-keys");
    obs.class_if(s.neg.iter().all(|b| *b), "neg-delta-all-5-fields");
    if s.nonempty_lines >= 2 && s.neg.iter().all(|b| *b) && s.one && s.five {
        obs.nontrivial();
    }
    Verdict::Pass
}

fn index_json(ix: &IndexDoc) -> String {
    let secs = json_array(ix.sections.iter().map(|(off, url, doc)| {
        let mut pairs = vec![];
        if let Some(u) = url {
            pairs.push(("url".to_string(), v3::json_str(u, false)));
        }
        pairs.push((
            "offset".to_string(),
            format!("{{\"column\":{},\"line\":{}}}", off.1, off.0),
        ));
        if let Some(d) = doc {
            pairs.push(("map".to_string(), d.to_json_no_header()));
        }
        v3::json_object(&pairs, false)
    }));
    let mut pairs = vec![];
    if ix.extra_top_keys {
        // keys of a regular map next to `sections` do not change the kind
        pairs.push(("mappings".to_string(), "\"AAAA\"".to_string()));
        pairs.push(("sources".to_string(), "[\"ignored.js\"]".to_string()));
    }
    pairs.push(("version".to_string(), "3".to_string()));
    match &ix.file {
        K::Absent => {}
        K::Null => pairs.push(("file".into(), "null".into())),
        K::Val(f) => pairs.push(("file".into(), v3::json_str(f, ix.style.ascii_only))),
    }
    pairs.push(("sections".to_string(), secs));
    if ix.style.key_perm.first().copied().unwrap_or(0) & 1 == 1 {
        pairs.reverse();
    }
    let body = v3::json_object(&pairs, ix.style.spaced);
    match &ix.style.header {
        Some(h) => format!("{h}{body}"),
        None => body,
    }
}

fn check_index(ix: &IndexDoc, obs: &mut Obs) -> Verdict {
    let text = index_json(ix);
    for how in ["decode_slice", "decode(reader)"] {
        let dm = match how {
            "decode_slice" => guarded!(how, decode_slice(text.as_bytes())),
            _ => guarded!(how, decode(text.as_bytes())),
        };
        let dm = match dm {
            Ok(m) => m,
            Err(e) => return Verdict::Fail(format!("{how} rejects a well-formed index document: {e}; doc={text}")),
        };
        let DecodedMap::Index(smi) = dm else {
            return Verdict::Fail(format!("{how}: document with 'sections' did not decode as an index map"));
        };
        ensure_eq!(smi.get_file().map(str::to_string), ix.file.val().cloned(), "{how}: index file");
        let mut want: Vec<_> = ix.sections.iter().collect();
        want.sort_by_key(|s| s.0);
        ensure_eq!(smi.get_section_count() as usize, want.len(), "{how}: section count");
        for (i, (off, url, doc)) in want.iter().enumerate() {
            let sec = smi.get_section(i as u32).expect("counted");
            ensure_eq!(sec.get_offset(), *off, "{how}: offset of section {i} (sections ordered by offset)");
            ensure_eq!(sec.get_url().map(str::to_string), url.clone(), "{how}: url of section {i}");
            match (sec.get_sourcemap(), doc) {
                (None, None) => {}
                (Some(m), Some(d)) => {
                    let v = compare_decoded(m, d, &format!("{how} section {i}"));
                    if !v.is_pass() {
                        return v;
                    }
                }
                (a, b) => {
                    return Verdict::Fail(format!(
                        "{how}: section {i} embedded map present={} expected={}",
                        a.is_some(),
                        b.is_some()
                    ))
                }
            }
        }
    }
    obs.class("kind:index");
    obs.class_if(ix.extra_top_keys, "index-with-regular-keys");
    obs.class_if(ix.sections.iter().any(|s| s.2.is_none()), "url-only-section");
    obs.class_if(ix.sections.iter().any(|s| s.2.as_ref().map(|d| d.fb_sources.is_some()).unwrap_or(false)), "hermes-section");
    let sorted = ix.sections.windows(2).all(|w| w[0].0 <= w[1].0);
    obs.class_if(!sorted, "sections-written-out-of-order");
    let with_tokens = ix
        .sections
        .iter()
        .filter(|s| s.2.as_ref().map(|d| d.lines.iter().flatten().flatten().count() >= 2).unwrap_or(false))
        .count();
    if ix.sections.len() >= 2 && !sorted && with_tokens >= 2 {
        obs.nontrivial();
    }
    Verdict::Pass
}

fn check(case: &Case, obs: &mut Obs) -> Verdict {
    match case {
        Case::Doc(d) => check_doc(d, obs),
        Case::Index(ix) => check_index(ix, obs),
    }
}

fn subs() -> Vec<Sub> {
    vec![
        gen_sub("long_lines", |t| doc_strategy_sized(false, 3, t.pick(1200, 4000)).prop_map(Case::Doc).boxed(), |t| t.pick(600, 4_000), check),
        gen_sub("documents", |t| doc_strategy(t, true).prop_map(Case::Doc).boxed(), |t| t.pick(160_000, 800_000), check),
        gen_sub("index_documents", |t| index_doc_strategy(t).prop_map(Case::Index).boxed(), |t| t.pick(24_000, 120_000), check),
    ]
}

pub const DEF: PropertyDef = PropertyDef {
    id: "C02",
    rule: "long_lines: up to 3 lines of up to 1200 (4000) segments. documents: abstract documents (lines of Empty/1/4/5-field segments in absolute values, optional keys absent/null/present \
           in generated order, optional junk header, optional x_facebook_sources) written by the independent encoder; expected map \
           computed from the model. Non-trivial = >= 2 non-empty lines, a negative delta in each of the five fields, a 1-field and a \
           5-field segment. index_documents: sections written in shuffled order; non-trivial = >= 2 sections out of order, two with >= 2 tokens",
    assumptions: &[
        "token order among equal generated positions is not compared (sort is unstable by contract)",
        "names other than strings and integers, and non-string 'file', belong to C05's domain",
    ],
    subs,
};
