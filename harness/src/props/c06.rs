//! C06 — malformed mappings are rejected, never silently mis-decoded.

use proptest::collection::vec;
use proptest::prelude::*;
use serde::{Deserialize, Serialize};
use sourcemap::{decode_slice, vlq::parse_vlq_segment, DecodedMap};

use super::c02::doc_strategy;
use crate::engine::{enum_sub, gen_sub, guard, sample_strategy, Obs, PropertyDef, Sub, Tier, Verdict};
use crate::model::*;
use crate::refimpl::{v3, vlq as rv};

#[derive(Clone, Debug, Hash, Serialize, Deserialize, PartialEq, Eq)]
pub enum Target {
    /// len + k
    Above(u32),
    /// -1 - k
    Below(u32),
    /// the correct index plus m * 2^32 (m != 0)
    Wrap(i8),
}

#[derive(Clone, Debug, Hash, Serialize, Deserialize, PartialEq, Eq)]
pub enum Fault {
    /// rewrite a segment to `to` fields (2, 3, 6, 7, 12, and counts around 256, 512, 1024, 4096)
    Arity { seg: u16, to: u16 },
    /// make a 1-field segment a 4-/5-field one pointing at index 0 of an *empty* array
    Promote { seg: u16 },
    SrcIndex { seg: u16, target: Target },
    NameIndex { seg: u16, target: Target },
    /// continuation bit set on the last digit of the segment
    CutOff { seg: u16 },
    /// one field written with 14..20 digits
    Overlong { seg: u16, field: u8, digits: u8 },
    /// a character outside [A-Za-z0-9+/,;] inserted at a byte offset of the mappings text
    Foreign { at: u16, ch: char },
    /// the foreign character together with a separator (`c,` or `,c`): at a segment boundary it is
    /// a segment of its own
    ForeignSegment { at: u16, ch: char, sep_first: bool },
}

#[derive(Clone, Debug, Hash, Serialize, Deserialize)]
pub struct Case {
    pub doc: DocModel,
    pub faults: Vec<Fault>,
}

/// Segment texts with the running indices *before* each segment.
struct Seg {
    fields: Vec<i64>,
    prev_src: i64,
    prev_name: i64,
    own_src: Option<i64>,
    own_name: Option<i64>,
    /// explicit field texts (after an Overlong / CutOff edit)
    text: Option<String>,
}

fn segments(d: &DocModel) -> Vec<Vec<Seg>> {
    let (mut p_src, mut p_line, mut p_col, mut p_name) = (0i64, 0i64, 0i64, 0i64);
    let mut out = vec![];
    for line in &d.lines {
        let mut p_dc = 0i64;
        let mut segs = vec![];
        for seg in line {
            let mut s = Seg { fields: vec![], prev_src: p_src, prev_name: p_name, own_src: None, own_name: None, text: None };
            if let Some((dc, src)) = seg {
                s.fields.push(i64::from(*dc) - p_dc);
                p_dc = i64::from(*dc);
                if let Some(r) = src {
                    s.fields.push(i64::from(r.id) - p_src);
                    p_src = i64::from(r.id);
                    s.own_src = Some(p_src);
                    s.fields.push(i64::from(r.line) - p_line);
                    p_line = i64::from(r.line);
                    s.fields.push(i64::from(r.col) - p_col);
                    p_col = i64::from(r.col);
                    if let Some(n) = r.name {
                        s.fields.push(i64::from(n) - p_name);
                        p_name = i64::from(n);
                        s.own_name = Some(p_name);
                    }
                }
            }
            segs.push(s);
        }
        out.push(segs);
    }
    out
}

fn render(lines: &[Vec<Seg>]) -> String {
    lines
        .iter()
        .map(|l| {
            l.iter()
                .map(|s| s.text.clone().unwrap_or_else(|| rv::write_all(&s.fields)))
                .collect::<Vec<_>>()
                .join(",")
        })
        .collect::<Vec<_>>()
        .join(";")
}

fn pick<'a>(lines: &'a mut [Vec<Seg>], sel: u16, pred: impl Fn(&Seg) -> bool) -> Option<&'a mut Seg> {
    let n = lines.iter().flatten().filter(|s| pred(s)).count();
    if n == 0 {
        return None;
    }
    let k = idx16(sel, n);
    lines.iter_mut().flatten().filter(|s| pred(s)).nth(k)
}

fn target_value(t: &Target, len: usize, correct: i64) -> i64 {
    match t {
        Target::Above(k) => len as i64 + i64::from(*k),
        Target::Below(k) => -1 - i64::from(*k),
        Target::Wrap(m) => correct + i64::from(if *m == 0 { 1 } else { *m }) * (1i64 << 32),
    }
}

/// Applies the faults; returns the faulted mappings text and the labels of the faults that
/// could be applied.
fn apply(d: &DocModel, faults: &[Fault]) -> (String, Vec<&'static str>) {
    let ns = d.sources.val().map(|v| v.len()).unwrap_or(0);
    let nn = d.names.val().map(|v| v.len()).unwrap_or(0);
    let mut lines = segments(d);
    let mut labels = vec![];
    let mut foreign: Vec<(u16, char)> = vec![];
    let mut foreign_seg: Vec<(u16, char, bool)> = vec![];
    for f in faults {
        match f {
            Fault::Arity { seg, to } => {
                if let Some(s) = pick(&mut lines, *seg, |s| !s.fields.is_empty() && s.text.is_none()) {
                    let to = *to as usize;
                    if to != s.fields.len() && !matches!(to, 1 | 4 | 5) {
                        s.fields.resize(to, 0);
                        labels.push("arity");
                    }
                }
            }
            Fault::Promote { seg } => {
                if ns == 0 {
                    if let Some(s) = pick(&mut lines, *seg, |s| s.fields.len() == 1 && s.text.is_none()) {
                        s.fields.resize(4, 0);
                        // make the running index land on 0 exactly
                        s.fields[1] = -s.prev_src;
                        labels.push("index-into-empty-sources");
                    }
                } else if nn == 0 {
                    if let Some(s) = pick(&mut lines, *seg, |s| s.fields.len() == 4 && s.text.is_none()) {
                        s.fields.push(-s.prev_name);
                        labels.push("index-into-empty-names");
                    }
                }
            }
            Fault::SrcIndex { seg, target } => {
                if let Some(s) = pick(&mut lines, *seg, |s| s.fields.len() >= 4 && s.text.is_none() && s.own_src.is_some()) {
                    let t = target_value(target, ns, s.own_src.unwrap());
                    s.fields[1] = t - s.prev_src;
                    labels.push(match target {
                        Target::Above(_) => "source-index-above",
                        Target::Below(_) => "source-index-negative",
                        Target::Wrap(_) => "source-index-wraps-2^32",
                    });
                }
            }
            Fault::NameIndex { seg, target } => {
                if let Some(s) = pick(&mut lines, *seg, |s| s.fields.len() == 5 && s.text.is_none() && s.own_name.is_some()) {
                    let t = target_value(target, nn, s.own_name.unwrap());
                    s.fields[4] = t - s.prev_name;
                    labels.push(match target {
                        Target::Above(_) => "name-index-above",
                        Target::Below(_) => "name-index-negative",
                        Target::Wrap(_) => "name-index-wraps-2^32",
                    });
                }
            }
            Fault::CutOff { seg } => {
                if let Some(s) = pick(&mut lines, *seg, |s| !s.fields.is_empty() && s.text.is_none()) {
                    let mut t = rv::write_all(&s.fields);
                    let last = t.pop().unwrap();
                    let d = rv::digit_of(last as u8).unwrap() | 32;
                    t.push(rv::ALPHABET[d as usize] as char);
                    s.text = Some(t);
                    labels.push("cut-off");
                }
            }
            Fault::Overlong { seg, field, digits } => {
                if let Some(s) = pick(&mut lines, *seg, |s| !s.fields.is_empty() && s.text.is_none()) {
                    let k = idx16(u16::from(*field) << 8, s.fields.len());
                    let mut t = String::new();
                    for (i, v) in s.fields.iter().enumerate() {
                        if i == k {
                            rv::write_padded(&mut t, *v, (*digits).clamp(14, 20) as usize);
                        } else {
                            rv::write(&mut t, *v);
                        }
                    }
                    s.text = Some(t);
                    labels.push("14+digits");
                }
            }
            Fault::Foreign { at, ch } => foreign.push((*at, *ch)),
            Fault::ForeignSegment { at, ch, sep_first } => foreign_seg.push((*at, *ch, *sep_first)),
        }
    }
    let mut text = render(&lines);
    for (at, ch, sep_first) in foreign_seg {
        let mut off = idx16(at, text.len() + 1);
        while !text.is_char_boundary(off) {
            off -= 1;
        }
        let ins = if sep_first { format!(",{ch}") } else { format!("{ch},") };
        text.insert_str(off, &ins);
        labels.push("foreign-character-as-a-segment-of-its-own(or next to a separator)");
    }
    for (at, ch) in foreign {
        let mut off = idx16(at, text.len() + 1);
        while !text.is_char_boundary(off) {
            off -= 1;
        }
        text.insert(off, ch);
        labels.push(if ch.is_ascii() { "foreign-ascii" } else { "foreign-non-ascii" });
    }
    (text, labels)
}

fn resolves(m: &DecodedMap) -> Result<(), String> {
    let sm: &sourcemap::SourceMap = match m {
        DecodedMap::Regular(sm) => sm,
        DecodedMap::Hermes(h) => h,
        DecodedMap::Index(_) => return Ok(()),
    };
    for t in sm.tokens() {
        if t.get_src_id() != !0 && t.get_source().is_none() {
            return Err(format!("decoded token {t:?} has source id {} which does not resolve", t.get_src_id()));
        }
        if t.get_name_id() != !0 && t.get_name().is_none() {
            return Err(format!("decoded token {t:?} has name id {} which does not resolve", t.get_name_id()));
        }
    }
    Ok(())
}

fn check(c: &Case, obs: &mut Obs) -> Verdict {
    let mut twin = c.doc.clone();
    twin.mappings_override = None;
    let twin_text = twin.to_json();
    match guard(|| decode_slice(twin_text.as_bytes())) {
        Ok(Ok(m)) => {
            if let Err(e) = resolves(&m) {
                return Verdict::Fail(e);
            }
        }
        Ok(Err(e)) => return Verdict::Fail(format!("the un-faulted twin document is rejected: {e}; doc={twin_text}")),
        Err(p) => return Verdict::Fail(format!("decoding the twin: {p}")),
    }
    let (text, labels) = apply(&c.doc, &c.faults);
    if labels.is_empty() {
        obs.class("no-fault-applicable");
        return Verdict::Pass;
    }
    let ns = c.doc.sources.val().map(|v| v.len()).unwrap_or(0);
    let nn = c.doc.names.val().map(|v| v.len()).unwrap_or(0);
    let reference = v3::decode_mappings(&text, ns, nn);
    let Err(why) = reference else {
        return Verdict::Fail(format!("harness error: faults {labels:?} left a well-formed mappings string {text:?}"));
    };
    let mut faulted = c.doc.clone();
    faulted.mappings_override = Some(text.clone());
    let doc = faulted.to_json();
    // with a (short) range bit field next to it the faulted mappings are refused all the same
    if let Some(rest) = doc.trim_start().strip_prefix('{') {
        if c.doc.style.header.is_none() && !doc.contains("rangeMappings") {
            let with_ranges = format!("{{\"rangeMappings\":\"B;B;;B\",{rest}");
            match guard(|| decode_slice(with_ranges.as_bytes())) {
                Ok(Err(_)) => {}
                Ok(Ok(_)) => {
                    return Verdict::Fail(format!(
                        "mappings {text:?} decoded successfully although it is malformed ({why:?}; faults {labels:?}) once a 'rangeMappings' key is present: doc={with_ranges}"
                    ))
                }
                Err(p) => return Verdict::Fail(format!("decode_slice (with rangeMappings): {p}; doc={with_ranges}")),
            }
        }
    }
    match guard(|| decode_slice(doc.as_bytes())) {
        Ok(Err(_)) => {}
        Ok(Ok(m)) => {
            let extra = resolves(&m).err().unwrap_or_default();
            return Verdict::Fail(format!(
                "mappings {text:?} decoded successfully although it is malformed ({why:?}; faults {labels:?}; {ns} sources, {nn} names). {extra}"
            ));
        }
        Err(p) => return Verdict::Fail(format!("decoding faulted mappings {text:?}: {p}")),
    }
    // the same faulted document embedded in index sections (with and without a url, nested)
    let inner = faulted.to_json_no_header();
    let fine = "{\"version\":3,\"sources\":[\"ok.js\"],\"names\":[],\"mappings\":\"AAAA\"}";
    for (k, wrapped) in [
        format!("{{\"version\":3,\"sections\":[{{\"offset\":{{\"line\":0,\"column\":0}},\"map\":{inner}}}]}}"),
        format!("{{\"version\":3,\"sections\":[{{\"offset\":{{\"line\":1,\"column\":2}},\"url\":\"http://h/s.map\",\"map\":{inner}}}]}}"),
        format!("{{\"version\":3,\"sections\":[{{\"offset\":{{\"line\":0,\"column\":0}},\"map\":{{\"version\":3,\"sections\":[{{\"offset\":{{\"line\":0,\"column\":0}},\"url\":\"u\",\"map\":{inner}}}]}}}}]}}"),
        // next to well-formed sections: after one at the same offset, after one at another offset, between two, before one
        format!("{{\"version\":3,\"sections\":[{{\"offset\":{{\"line\":2,\"column\":0}},\"map\":{fine}}},{{\"offset\":{{\"line\":2,\"column\":0}},\"map\":{inner}}}]}}"),
        format!("{{\"version\":3,\"sections\":[{{\"offset\":{{\"line\":0,\"column\":0}},\"map\":{fine}}},{{\"offset\":{{\"line\":5,\"column\":0}},\"map\":{inner}}}]}}"),
        format!("{{\"version\":3,\"sections\":[{{\"offset\":{{\"line\":0,\"column\":0}},\"map\":{fine}}},{{\"offset\":{{\"line\":0,\"column\":0}},\"map\":{inner}}},{{\"offset\":{{\"line\":0,\"column\":0}},\"map\":{fine}}}]}}"),
        format!("{{\"version\":3,\"sections\":[{{\"offset\":{{\"line\":3,\"column\":1}},\"map\":{inner}}},{{\"offset\":{{\"line\":0,\"column\":0}},\"map\":{fine}}}]}}"),
    ]
    .iter()
    .enumerate()
    {
        match guard(|| decode_slice(wrapped.as_bytes())) {
            Ok(Err(_)) => {}
            Ok(Ok(_)) => {
                return Verdict::Fail(format!(
                    "malformed mappings {text:?} ({why:?}) are accepted when the map is embedded in an index section (wrapping {k}: {})",
                    ["plain section", "section with url", "nested section with url", "second of two sections at one offset", "second of two sections", "middle of three sections at one offset", "first of two sections given out of order"][k]
                ))
            }
            Err(p) => return Verdict::Fail(format!("decoding wrapped faulted mappings: {p}")),
        }
    }
    obs.class("also-embedded-in-index-sections");
    // the faulty segments go through the public VLQ parser as well
    for seg in text.split([',', ';']) {
        if seg.is_empty() {
            continue;
        }
        let r = rv::read(seg);
        if let Err(e) = r {
            match guard(|| parse_vlq_segment(seg)) {
                Ok(Err(_)) => {}
                Ok(Ok(v)) => return Verdict::Fail(format!("parse_vlq_segment({seg:?}) = Ok({v:?}) although the segment is malformed ({e:?})")),
                Err(p) => return Verdict::Fail(format!("parse_vlq_segment({seg:?}): {p}")),
            }
        }
    }
    for l in &labels {
        obs.class(l);
    }
    obs.class_if(labels.len() >= 2, "combined-faults");
    obs.class_if(ns == 0, "empty-sources");
    obs.class_if(nn == 0, "empty-names");
    let nseg = c.doc.lines.iter().flatten().flatten().count();
    // non-trivial: the twin has >= 3 segments and the (first) fault does not sit at the very end
    let at_end = match &why {
        v3::Malformed::Foreign(ch) => text.ends_with(*ch),
        _ => false,
    };
    if nseg >= 3 && !at_end {
        obs.nontrivial();
    }
    Verdict::Pass
}

fn target() -> BoxedStrategy<Target> {
    prop_oneof![
        3 => prop_oneof![Just(0u32), Just(1), 2u32..40, Just(1 << 16), Just((1u32 << 31) - 1)].prop_map(Target::Above),
        3 => prop_oneof![Just(0u32), Just(1), 2u32..40, Just(1 << 16), Just((1u32 << 31) - 1)].prop_map(Target::Below),
        3 => prop_oneof![Just(1i8), Just(-1), Just(2), Just(-2)].prop_map(Target::Wrap),
    ]
    .boxed()
}

fn foreign_char() -> BoxedStrategy<char> {
    prop_oneof![
        4 => (0u8..128).prop_filter_map("alphabet or separator", |b| {
            let c = b as char;
            if rv::digit_of(b).is_some() || c == ',' || c == ';' { None } else { Some(c) }
        }),
        3 => (0x80u32..0x800).prop_filter_map("char", char::from_u32),
        1 => any::<char>().prop_filter("non-ascii", |c| !c.is_ascii()),
    ]
    .boxed()
}

fn fault() -> BoxedStrategy<Fault> {
    prop_oneof![
        3 => (any::<u16>(), proptest::sample::select(vec![2u16, 3, 6, 7, 12, 64, 255, 256, 257, 260, 261, 512, 513, 516, 1024, 4100])).prop_map(|(seg, to)| Fault::Arity { seg, to }),
        1 => any::<u16>().prop_map(|seg| Fault::Promote { seg }),
        3 => (any::<u16>(), target()).prop_map(|(seg, target)| Fault::SrcIndex { seg, target }),
        3 => (any::<u16>(), target()).prop_map(|(seg, target)| Fault::NameIndex { seg, target }),
        2 => any::<u16>().prop_map(|seg| Fault::CutOff { seg }),
        2 => (any::<u16>(), any::<u8>(), 14u8..=20).prop_map(|(seg, field, digits)| Fault::Overlong { seg, field, digits }),
        3 => (any::<u16>(), foreign_char()).prop_map(|(at, ch)| Fault::Foreign { at, ch }),
        1 => (any::<u16>(), foreign_char(), any::<bool>()).prop_map(|(at, ch, sep_first)| Fault::ForeignSegment { at, ch, sep_first }),
    ]
    .boxed()
}

fn single(t: Tier) -> BoxedStrategy<Case> {
    (doc_strategy(t, false), fault()).prop_map(|(doc, f)| Case { doc, faults: vec![f] }).boxed()
}

fn combined(t: Tier) -> BoxedStrategy<Case> {
    (doc_strategy(t, false), vec(fault(), 2..4)).prop_map(|(doc, faults)| Case { doc, faults }).boxed()
}

/// Foreign byte at *every* offset of the mappings text of a fixed set of documents: all ASCII
/// bytes outside the alphabet, every 2-byte UTF-8 character at a rotating offset, and
/// samples of 3-/4-byte characters.
fn sweep(t: Tier) -> Box<dyn Iterator<Item = Case>> {
    let ndocs = t.pick(40, 400);
    let docs = sample_strategy(&doc_strategy(Tier::Quick, false), 0xC06, ndocs);
    let ascii: Vec<char> = (0u8..128)
        .filter(|b| rv::digit_of(*b).is_none() && *b != b',' && *b != b';')
        .map(|b| b as char)
        .collect();
    let wide: Vec<char> = [0x800u32, 0x20ac, 0xd7ff, 0xe000, 0xfffd, 0x10000, 0x1f600, 0x10ffff]
        .iter()
        .filter_map(|c| char::from_u32(*c))
        .collect();
    Box::new(docs.into_iter().enumerate().flat_map(move |(di, doc)| {
        let len = doc.mappings().len();
        let ascii = ascii.clone();
        let wide = wide.clone();
        let mut cases = vec![];
        for off in 0..=len {
            // `at` is mapped back by idx16(at, len + 1): choose the smallest draw landing on `off`
            let at = (((off as u32) << 16).div_ceil(len as u32 + 1)).min(65535) as u16;
            for &ch in ascii.iter().chain(wide.iter()) {
                cases.push(Case { doc: doc.clone(), faults: vec![Fault::Foreign { at, ch }] });
            }
            for ch in ['!', ' ', '\n', '=', '-', '_', '.', '\u{e9}'] {
                for sep_first in [false, true] {
                    cases.push(Case { doc: doc.clone(), faults: vec![Fault::ForeignSegment { at, ch, sep_first }] });
                }
            }
        }
        // every 2-byte character once per document, offsets rotating
        for (k, cp) in (0x80u32..0x800).enumerate() {
            if let Some(ch) = char::from_u32(cp) {
                let off = (k + di) % (len + 1);
                let at = (((off as u32) << 16).div_ceil(len as u32 + 1)).min(65535) as u16;
                cases.push(Case { doc: doc.clone(), faults: vec![Fault::Foreign { at, ch }] });
            }
        }
        cases
    }))
}

// --- differential on arbitrary (also non-canonical) mappings strings ----------------------------

/// Both directions against the independent reader: malformed (one of the listed reasons) =>
/// the crate must refuse; well-formed and inside u32 => the crate must accept and produce
/// exactly the reference tokens. Returns a class label.
pub fn differential(text: &str, ns: usize, nn: usize) -> Result<&'static str, String> {
    let sources: Vec<String> = (0..ns).map(|i| format!("\"s{i}.js\"")).collect();
    let names: Vec<String> = (0..nn).map(|i| format!("\"n{i}\"")).collect();
    let doc = format!(
        "{{\"version\":3,\"sources\":[{}],\"names\":[{}],\"mappings\":{}}}",
        sources.join(","),
        names.join(","),
        v3::json_str(text, false)
    );
    let got = match guard(|| decode_slice(doc.as_bytes())) {
        Ok(r) => r,
        Err(p) => return Err(format!("decoding mappings {text:?}: {p}")),
    };
    // a 13-digit value whose magnitude needs more than 62 bits: the VLQ contract (C11) is silent
    let huge = text
        .split([',', ';'])
        .filter(|s| !s.is_empty())
        .filter_map(|s| rv::read(s).ok())
        .flatten()
        .any(|v| v.value.unsigned_abs() >= (1u128 << 62));
    if huge {
        return Ok("value-beyond-62-bits(crash-freedom only)");
    }
    match v3::decode_mappings(text, ns, nn) {
        Err(why) => match got {
            Err(_) => Ok("malformed=>rejected"),
            Ok(_) => Err(format!("mappings {text:?} ({ns} sources, {nn} names) decoded successfully although it is malformed: {why:?}")),
        },
        Ok(d) if d.out_of_u32 => Ok("leaves-u32(unspecified)"),
        Ok(d) => match got {
            Err(e) => Err(format!("well-formed mappings {text:?} ({ns} sources, {nn} names) rejected: {e}")),
            Ok(DecodedMap::Regular(sm)) => {
                let mut want: Vec<(u32, u32, Option<(u32, u32, u32, Option<u32>)>)> = d
                    .tokens
                    .iter()
                    .map(|t| (t.dl, t.dc, t.src.as_ref().map(|s| (s.id, s.line, s.col, s.name))))
                    .collect();
                want.sort();
                let mut have: Vec<(u32, u32, Option<(u32, u32, u32, Option<u32>)>)> = sm
                    .tokens()
                    .map(|t| {
                        (
                            t.get_dst_line(),
                            t.get_dst_col(),
                            if t.has_source() {
                                Some((t.get_src_id(), t.get_src_line(), t.get_src_col(), if t.get_name_id() != !0 { Some(t.get_name_id()) } else { None }))
                            } else {
                                None
                            },
                        )
                    })
                    .collect();
                let sorted = have.windows(2).all(|w| (w[0].0, w[0].1) <= (w[1].0, w[1].1));
                have.sort();
                if have != want {
                    return Err(format!("mappings {text:?} ({ns} sources, {nn} names): decoded tokens {have:?} differ from the independent reading {want:?}"));
                }
                if !sorted {
                    return Err(format!("mappings {text:?}: decoded tokens are not ordered"));
                }
                if let Err(e) = resolves(&DecodedMap::Regular(sm)) {
                    return Err(e);
                }
                Ok("well-formed=>same-tokens")
            }
            Ok(_) => Err("regular document decoded as another kind".into()),
        },
    }
}

#[derive(Clone, Debug, Hash, Serialize, Deserialize)]
pub struct DiffCase {
    pub text: String,
    pub ns: u8,
    pub nn: u8,
}

fn check_diff(c: &DiffCase, obs: &mut Obs) -> Verdict {
    match differential(&c.text, c.ns as usize, c.nn as usize) {
        Ok(class) => {
            obs.class(class);
            let digits = c.text.bytes().filter(|b| rv::digit_of(*b).is_some()).count();
            let canonical = c.text.split([',', ';']).all(|s| s.is_empty() || rv::read(s).map(|v| rv::write_all(&v.iter().map(|x| x.value as i64).collect::<Vec<_>>()) == s).unwrap_or(true));
            obs.class_if(!canonical && class == "well-formed=>same-tokens", "non-canonical-vlq-accepted-identically");
            if digits >= 6 && class != "leaves-u32(unspecified)" && class != "value-beyond-62-bits(crash-freedom only)" {
                obs.nontrivial();
            }
            Verdict::Pass
        }
        Err(e) => Verdict::Fail(e),
    }
}

/// Strings from a segment grammar: values written canonically or padded to 1..13 (rarely 14+)
/// digits, mostly legal arities and in-range running indices, sometimes not.
fn diff_line(clean: bool) -> BoxedStrategy<String> {
    let pad = move || -> BoxedStrategy<usize> {
        if clean {
            prop_oneof![5 => Just(0usize), 3 => 1usize..14].boxed()
        } else {
            prop_oneof![5 => Just(0usize), 3 => 1usize..14, 1 => 14usize..17].boxed()
        }
    };
    let render = |v: i64, pad: usize| {
        let mut s = String::new();
        if pad == 0 {
            rv::write(&mut s, v);
        } else {
            rv::write_padded(&mut s, v, pad.max(rv::write_all(&[v]).len()));
        }
        s
    };
    let magnitude = if clean {
        prop_oneof![10 => 0i64..8, 1 => -2i64..1, 2 => 0i64..300, 1 => Just((1i64 << 31) - 1)].boxed()
    } else {
        prop_oneof![6 => -3i64..4, 2 => -70i64..70, 1 => proptest::sample::select(vec![(1i64 << 31) - 1, -(1i64 << 31), (1i64 << 32) - 1, 1 << 32, -(1i64 << 32)])].boxed()
    };
    let value = (magnitude, pad()).prop_map(move |(v, p)| render(v, p));
    // source / name deltas are mostly 0 so that running indices stay in range
    let idx_delta = if clean {
        prop_oneof![30 => Just(0i64), 1 => 0i64..2].boxed()
    } else {
        prop_oneof![10 => Just(0i64), 2 => -1i64..2, 1 => -3i64..4].boxed()
    };
    let idx_value = (idx_delta, pad()).prop_map(move |(v, p)| render(v, p));
    let arity = if clean {
        prop_oneof![3 => Just(1usize), 6 => Just(4), 6 => Just(5)].boxed()
    } else {
        prop_oneof![3 => Just(1usize), 6 => Just(4), 6 => Just(5), 2 => 0usize..8].boxed()
    };
    let seg = (arity, vec(value, 8), vec(idx_value, 2)).prop_map(|(n, mut v, idx)| {
        v[1] = idx[0].clone();
        v[4] = idx[1].clone();
        v.into_iter().take(n).collect::<String>()
    });
    vec(seg, 0..5).prop_map(|s| s.join(",")).boxed()
}

/// Strings from a segment grammar: values written canonically or padded to 1..13 (in the
/// "dirty" half also 14+) digits, legal arities and mostly in-range running indices (dirty:
/// any arity), plus alphabet soup.
fn diff_strings(_t: Tier) -> BoxedStrategy<DiffCase> {
    (
        prop_oneof![
            6 => vec(diff_line(true), 0..5).prop_map(|l| l.join(";")),
            4 => vec(diff_line(false), 0..5).prop_map(|l| l.join(";")),
            1 => "[A-Za-z0-9+/,;]{0,24}".prop_map(|s| s),
            1 => "[ACDEgh,;!= -]{0,16}".prop_map(|s| s),
        ],
        prop_oneof![1 => Just(0u8), 6 => 1u8..4],
        prop_oneof![1 => Just(0u8), 6 => 1u8..4],
    )
        .prop_map(|(text, ns, nn)| DiffCase { text, ns, nn })
        .boxed()
}

/// libFuzzer entry: byte 0 -> number of sources (0..3), byte 1 -> number of names (0..3), rest
/// -> the mappings string. Aborts on a disagreement with the independent reader.
pub fn fuzz_one(data: &[u8]) {
    if data.len() < 2 {
        return;
    }
    let text = String::from_utf8_lossy(&data[2..]);
    if let Err(e) = differential(&text, (data[0] % 4) as usize, (data[1] % 4) as usize) {
        eprintln!("C06 violation: {e}");
        std::process::abort();
    }
}

fn wrap_fuzz(b: Vec<u8>) -> DiffCase {
    if b.len() < 2 {
        return DiffCase { text: String::new(), ns: 0, nn: 0 };
    }
    DiffCase { text: String::from_utf8_lossy(&b[2..]).into_owned(), ns: b[0] % 4, nn: b[1] % 4 }
}

// --- a segment repeated byte for byte until its running index leaves the array ------------------

/// `reps` byte-identical segments with source (or name) delta `+-step`, starting from an index such
/// that `reps - 1` of them stay inside the array and the last one steps out of it. Every single
/// segment is harmless; only the running sum is out of range.
#[derive(Clone, Debug, Hash, Serialize, Deserialize)]
pub struct RepeatCase {
    pub name_field: bool,
    pub negative: bool,
    pub reps: u8,
    pub step: u8,
    pub slack: u8,
    pub semicolons: bool,
    pub prefix: bool,
}

fn repeat_docs(c: &RepeatCase) -> (String, String, usize) {
    let (k, d, e) = (i64::from(c.reps.max(2)) - 1, i64::from(c.step.max(1)), i64::from(c.slack % c.step.max(1)));
    // in range after k repetitions, out of range after k + 1
    let (len, start) = if c.negative { (k * d + e + 2, k * d + e) } else { (k * d + e + 1, 0) };
    let delta = if c.negative { -d } else { d };
    let first: Vec<i64> = if c.name_field { vec![0, 0, 0, 0, start] } else { vec![0, start, 0, 0] };
    let seg: Vec<i64> = if c.name_field { vec![1, 0, 0, 0, delta] } else { vec![1, delta, 0, 0] };
    let sep = if c.semicolons { ";" } else { "," };
    let build = |n: i64| {
        let mut parts = vec![];
        if c.prefix {
            parts.push(rv::write_all(&[0]));
        }
        parts.push(rv::write_all(&first));
        for _ in 0..n {
            parts.push(rv::write_all(&seg));
        }
        parts.join(sep)
    };
    let (good, bad) = (build(k), build(k + 1));
    let arr = |n: i64, p: &str| (0..n).map(|i| format!("\"{p}{i}\"")).collect::<Vec<_>>().join(",");
    let (ns, nn) = if c.name_field { (1, len) } else { (len, 0) };
    let doc = |m: &str| format!("{{\"version\":3,\"sources\":[{}],\"names\":[{}],\"mappings\":\"{m}\"}}", arr(ns, "s"), arr(nn, "n"));
    (doc(&good), doc(&bad), len as usize)
}

fn check_repeat(c: &RepeatCase, obs: &mut Obs) -> Verdict {
    let (good, bad, len) = repeat_docs(c);
    match guard(|| decode_slice(good.as_bytes())) {
        Ok(Ok(_)) => {}
        Ok(Err(e)) => return Verdict::Fail(format!("the twin with one repetition less (all indices in range, array of {len}) is rejected: {e}; doc={good}")),
        Err(p) => return Verdict::Fail(format!("decode_slice: {p}; doc={good}")),
    }
    match guard(|| decode_slice(bad.as_bytes())) {
        Ok(Err(_)) => {}
        Ok(Ok(_)) => {
            return Verdict::Fail(format!(
                "a {} index driven {} the array of {len} by byte-identical repeated segments is accepted; doc={bad}",
                if c.name_field { "name" } else { "source" },
                if c.negative { "below" } else { "beyond" }
            ))
        }
        Err(p) => return Verdict::Fail(format!("decode_slice: {p}; doc={bad}")),
    }
    obs.class(if c.negative { "repeated-segment-walks-below-0" } else { "repeated-segment-walks-past-the-array" });
    obs.nontrivial();
    Verdict::Pass
}

fn repeats(_t: Tier) -> Box<dyn Iterator<Item = RepeatCase>> {
    let mut out = vec![];
    for name_field in [false, true] {
        for negative in [false, true] {
            for reps in 2..=5u8 {
                for step in 1..=3u8 {
                    for slack in 0..step {
                        for semicolons in [false, true] {
                            for prefix in [false, true] {
                                out.push(RepeatCase { name_field, negative, reps, step, slack, semicolons, prefix });
                            }
                        }
                    }
                }
            }
        }
    }
    Box::new(out.into_iter())
}

fn subs() -> Vec<Sub> {
    vec![
        enum_sub("repeated_segments", repeats, check_repeat),
        gen_sub("differential_strings", diff_strings, |t| t.pick(200_000, 2_000_000), check_diff),
        super::fuzzrun::fuzz_sub::<DiffCase>("fuzz", "c06", check_diff, wrap_fuzz),
        gen_sub("single_fault", single, |t| t.pick(100_000, 1_500_000), check),
        gen_sub("combined_faults", combined, |t| t.pick(30_000, 400_000), check),
        enum_sub("foreign_byte_sweep", sweep, check),
    ]
}

pub const DEF: PropertyDef = PropertyDef {
    id: "C06",
    rule: "differential_strings: mappings strings from a segment grammar (values canonical or padded to 1..13, rarely 14+ digits; \
           arities 0..7; running indices mostly in range) and alphabet soup, 0..3 sources and names: malformed for one of the listed \
           reasons => must be refused, well-formed and inside u32 => must be accepted with exactly the tokens of the independent reader \
           (non-trivial = >= 6 digits); thorough: libFuzzer on (ns, nn, mappings) with the same differential in the target. \
           a well-formed abstract document (C02 generator, arrays of every size incl. empty) plus one injected fault (second sub: 2-3 \
           faults): arity 2/3/6/7/12, index into an empty array, source/name index len+k, -1-k or correct+-m*2^32, continuation bit on the \
           last digit, a 14..20-digit value, a foreign character; sweep: a foreign character at every byte offset of 40 (400) documents. \
           Oracle: the twin decodes, the faulted document (confirmed malformed by the independent reader) must be Err; every malformed \
           segment must also be refused by parse_vlq_segment. repeated_segments: byte-identical segments repeated until the running source / name index leaves the array (either way). Non-trivial = twin has >= 3 segments and the fault is not at the very end",
    assumptions: &[
        "any error variant is accepted (the statement promises an error, not which)",
        "generated columns / original positions leaving the u32 range are not among the listed faults and are not injected",
    ],
    subs,
};
