//! C18 — maps can be found from generated files and embedded as data URLs.

use proptest::collection::vec;
use proptest::prelude::*;
use serde::{Deserialize, Serialize};
use sourcemap::{
    decode_data_url, is_sourcemap, is_sourcemap_slice, locate_sourcemap_reference,
    locate_sourcemap_reference_slice, DecodedMap, SourceMapRef,
};

use super::c12::Chunked;
use super::common::{dec, ser};
use crate::engine::{gen_sub, guard, Obs, PropertyDef, Sub, Tier, Verdict};
use crate::model::*;
use crate::{ensure, ensure_eq};

#[derive(Clone, Debug, Hash, Serialize, Deserialize)]
pub enum Line {
    Code(String),
    /// `//# sourceMappingURL=` (legacy: `//@`) + padding + url + padding
    Comment { legacy: bool, pad_l: String, url: String, pad_r: String },
    LookAlike(String),
}

#[derive(Clone, Debug, Hash, Serialize, Deserialize)]
pub struct TextCase {
    /// (line, terminated by "\r\n" instead of "\n")
    pub lines: Vec<(Line, bool)>,
    pub final_newline: bool,
    pub cuts: Vec<u16>,
    pub max_read: usize,
}

#[derive(Clone, Debug, Hash, Serialize, Deserialize)]
pub enum Case {
    Text(TextCase),
    /// data URL round trip of a regular map, also embedded in a generated file
    DataUrl { map: MM, before: Vec<(Line, bool)>, after: Vec<(Line, bool)>, legacy: bool },
    /// detection predicate on serialised maps of all kinds
    Detect { map: MAny, cuts: Vec<u16>, max_read: usize },
}

fn render_line(l: &Line) -> String {
    match l {
        Line::Code(s) | Line::LookAlike(s) => s.clone(),
        Line::Comment { legacy, pad_l, url, pad_r } => {
            format!("//{} sourceMappingURL={pad_l}{url}{pad_r}", if *legacy { '@' } else { '#' })
        }
    }
}

fn render(lines: &[(Line, bool)], final_newline: bool) -> String {
    let mut s = String::new();
    for (i, (l, crlf)) in lines.iter().enumerate() {
        s.push_str(&render_line(l));
        if i + 1 < lines.len() || final_newline {
            s.push_str(if *crlf { "\r\n" } else { "\n" });
        }
    }
    s
}

/// Reference scan, from the statement: first line (split at \n, one trailing \r dropped)
/// that begins with one of the two 21-byte prefixes; URL = remainder trimmed.
fn ref_locate(text: &str) -> Option<(bool, String)> {
    for line in text.split('\n') {
        let line = line.strip_suffix('\r').unwrap_or(line);
        for (legacy, prefix) in [(false, "//# sourceMappingURL="), (true, "//@ sourceMappingURL=")] {
            if let Some(rest) = line.strip_prefix(prefix) {
                return Some((legacy, rest.trim().to_string()));
            }
        }
    }
    None
}

fn as_pair(r: &Option<SourceMapRef>) -> Option<(bool, String)> {
    match r {
        None => None,
        Some(SourceMapRef::Ref(u)) => Some((false, u.clone())),
        Some(SourceMapRef::LegacyRef(u)) => Some((true, u.clone())),
    }
}

fn check_text(t: &TextCase, obs: &mut Obs) -> Verdict {
    let text = render(&t.lines, t.final_newline);
    let want = ref_locate(&text);
    let got = match guard(|| locate_sourcemap_reference_slice(text.as_bytes())) {
        Ok(Ok(r)) => as_pair(&r),
        Ok(Err(e)) => return Verdict::Fail(format!("locate_sourcemap_reference_slice failed on valid UTF-8 text: {e}")),
        Err(p) => return Verdict::Fail(format!("locate_sourcemap_reference_slice: {p}")),
    };
    ensure_eq!(got, want, "locate_sourcemap_reference_slice on {text:?} ((legacy, url))");
    // the same discovery through a SourceView of the file
    let via_view = match guard(|| sourcemap::SourceView::new(text.as_str().into()).sourcemap_reference()) {
        Ok(Ok(r)) => as_pair(&r),
        Ok(Err(e)) => return Verdict::Fail(format!("SourceView::sourcemap_reference failed on valid UTF-8 text: {e}")),
        Err(p) => return Verdict::Fail(format!("SourceView::sourcemap_reference: {p}")),
    };
    ensure_eq!(via_view, want, "SourceView::sourcemap_reference on {text:?} ((legacy, url))");
    let n = text.len();
    let mut cuts: Vec<usize> = t.cuts.iter().map(|c| idx16(*c, n + 1)).filter(|c| *c > 0 && *c < n).collect();
    cuts.sort();
    cuts.dedup();
    let mut rdr = Chunked { data: text.as_bytes(), pos: 0, cuts: &cuts, max_read: t.max_read, reads: 0 };
    let got_r = match guard(|| locate_sourcemap_reference(&mut rdr)) {
        Ok(Ok(r)) => as_pair(&r),
        Ok(Err(e)) => return Verdict::Fail(format!("locate_sourcemap_reference(reader) failed: {e}")),
        Err(p) => return Verdict::Fail(format!("locate_sourcemap_reference(reader): {p}")),
    };
    ensure_eq!(got_r, want, "locate_sourcemap_reference(reader, cuts {cuts:?}) on {text:?}");
    if let Some((_, url)) = &want {
        let r = if want.as_ref().unwrap().0 { SourceMapRef::LegacyRef(url.clone()) } else { SourceMapRef::Ref(url.clone()) };
        ensure_eq!(r.get_url(), url.as_str(), "get_url");
    }
    // classes
    let first_comment = t.lines.iter().position(|l| matches!(l.0, Line::Comment { .. }));
    let lookalike_before = match first_comment {
        Some(i) => t.lines[..i].iter().any(|l| matches!(l.0, Line::LookAlike(_))),
        None => false,
    };
    obs.class_if(want.is_none(), "no-reference");
    obs.class_if(want.as_ref().map(|w| w.0).unwrap_or(false), "legacy");
    obs.class_if(want.as_ref().map(|w| w.1.is_empty()).unwrap_or(false), "empty-url");
    obs.class_if(lookalike_before, "look-alike-before-comment");
    obs.class_if(t.lines.iter().filter(|l| matches!(l.0, Line::Comment { .. })).count() >= 2, "several-comments");
    obs.class_if(t.lines.iter().any(|l| l.1), "crlf");
    obs.class_if(first_comment == Some(0), "comment-first-line");
    obs.class_if(first_comment.map(|i| i + 1 == t.lines.len()).unwrap_or(false) && !t.final_newline, "comment-last-line-no-newline");
    for l in &t.lines {
        if let Line::LookAlike(s) = &l.0 {
            obs.class_if(s.starts_with(' ') || s.starts_with('\t'), "look-alike:indented");
            obs.class_if(s.starts_with("//#s"), "look-alike:no-space");
            obs.class_if(s.contains(";//"), "look-alike:mid-line");
            obs.class_if(s.contains("sourcemappingurl") || s.contains("SourceMappingURL"), "look-alike:wrong-case");
        }
    }
    if lookalike_before && first_comment.map(|i| i + 1 < t.lines.len()).unwrap_or(false) {
        obs.nontrivial();
    }
    Verdict::Pass
}

fn check_data_url(map: &MM, before: &[(Line, bool)], after: &[(Line, bool)], legacy: bool, obs: &mut Obs) -> Verdict {
    let sm = match map.build() {
        Ok(m) => m,
        Err(e) => return Verdict::Fail(e),
    };
    let expected = match ser(&DecodedMap::Regular(sm.clone())).and_then(|b| dec(&b)) {
        Ok(m) => obs_any(&m),
        Err(e) => return Verdict::Fail(format!("plain round trip failed: {e}")),
    };
    let url = match guard(|| sm.to_data_url()) {
        Ok(Ok(u)) => u,
        Ok(Err(e)) => return Verdict::Fail(format!("to_data_url failed: {e}")),
        Err(p) => return Verdict::Fail(format!("to_data_url: {p}")),
    };
    match guard(|| decode_data_url(&url)) {
        Ok(Ok(m)) => ensure_eq!(obs_any(&m), expected, "decode_data_url(to_data_url(m)) differs from decode(serialise(m))"),
        Ok(Err(e)) => {
            return Verdict::Fail(format!("the library does not decode the data URL it produced: {e}; url starts with {:?}", &url[..url.len().min(60)]))
        }
        Err(p) => return Verdict::Fail(format!("decode_data_url: {p}")),
    }
    // the plain form (no charset parameter) of the same payload decodes to the same map
    let payload = match ser(&DecodedMap::Regular(sm.clone())) {
        Ok(b) => b,
        Err(e) => return Verdict::Fail(e),
    };
    // independently of the library's own reader: the URL is a base64 data URL (RFC 2397, standard
    // alphabet with padding) whose payload is the serialised map - what any other consumer sees
    {
        let body = url
            .strip_prefix("data:application/json;charset=utf-8;base64,")
            .or_else(|| url.strip_prefix("data:application/json;base64,"));
        let Some(body) = body else {
            return Verdict::Fail(format!("to_data_url() does not start with a base64 application/json preamble: {:?}", &url[..url.len().min(60)]));
        };
        let want = crate::refimpl::v3::base64(&payload);
        if body != want {
            let i = body.bytes().zip(want.bytes()).position(|(a, b)| a != b).unwrap_or(body.len().min(want.len()));
            return Verdict::Fail(format!(
                "to_data_url() payload is not the standard base64 (with padding) of the serialised map: differs at offset {i} ({:?} vs {:?}, lengths {} / {})",
                body.get(i..(i + 8).min(body.len())),
                want.get(i..(i + 8).min(want.len())),
                body.len(),
                want.len()
            ));
        }
    }
    let plain = format!("data:application/json;base64,{}", crate::refimpl::v3::base64(&payload));
    match guard(|| decode_data_url(&plain)) {
        Ok(Ok(m)) => ensure_eq!(obs_any(&m), expected, "decode_data_url(plain base64 form) differs from decode(serialise(m))"),
        Ok(Err(e)) => return Verdict::Fail(format!("decode_data_url rejects 'data:application/json;base64,<payload>': {e}")),
        Err(p) => return Verdict::Fail(format!("decode_data_url: {p}")),
    }
    // embedded in a generated file and discovered from there
    let mut lines: Vec<(Line, bool)> = before.to_vec();
    lines.push((Line::Comment { legacy, pad_l: String::new(), url: url.clone(), pad_r: String::new() }, false));
    lines.extend_from_slice(after);
    let text = render(&lines, true);
    let found = match guard(|| locate_sourcemap_reference_slice(text.as_bytes())) {
        Ok(Ok(Some(r))) => r,
        other => return Verdict::Fail(format!("reference not discovered in the generated file: {:?}", other.map(|r| r.map(|o| o.is_some()).map_err(|e| e.to_string())))),
    };
    ensure_eq!(found.get_url(), url.as_str(), "discovered URL");
    ensure_eq!(matches!(found, SourceMapRef::LegacyRef(_)), legacy, "legacy flag of the discovered reference");
    match guard(|| found.get_embedded_sourcemap()) {
        Ok(Ok(Some(m))) => ensure_eq!(obs_any(&m), expected, "embedded map discovered from the file differs"),
        Ok(Ok(None)) => return Verdict::Fail("get_embedded_sourcemap() = None for a data URL".into()),
        Ok(Err(e)) => return Verdict::Fail(format!("get_embedded_sourcemap() failed on the library's own data URL: {e}")),
        Err(p) => return Verdict::Fail(format!("get_embedded_sourcemap: {p}")),
    }
    obs.class("data-url");
    obs.class_if(legacy, "data-url-in-legacy-comment");
    if map.tokens.len() >= 3 && !before.is_empty() {
        obs.nontrivial();
    }
    Verdict::Pass
}

fn check_detect(map: &MAny, cuts: &[u16], max_read: usize, obs: &mut Obs) -> Verdict {
    let m = match map.build() {
        Ok(m) => m,
        Err(e) => return Verdict::Fail(e),
    };
    let bytes = match ser(&m) {
        Ok(b) => b,
        Err(e) => return Verdict::Fail(e),
    };
    ensure!(
        guard(|| is_sourcemap_slice(&bytes)) == Ok(true),
        "is_sourcemap_slice is not true for a serialised map: {}",
        String::from_utf8_lossy(&bytes)
    );
    let n = bytes.len();
    let mut c: Vec<usize> = cuts.iter().map(|c| idx16(*c, n + 1)).filter(|c| *c > 0 && *c < n).collect();
    c.sort();
    c.dedup();
    let mut rdr = Chunked { data: &bytes, pos: 0, cuts: &c, max_read, reads: 0 };
    ensure!(guard(|| is_sourcemap(&mut rdr)) == Ok(true), "is_sourcemap(reader) is not true for a serialised map");
    obs.class(match map {
        MAny::Regular(_) => "detect:regular",
        MAny::Hermes(_) => "detect:hermes",
        MAny::Index(_) => "detect:index",
    });
    obs.class_if(bytes.len() > 8 << 20, "serialised>8MiB");
    obs.class_if(bytes.len() > 48_000, "serialised>48KB");
    if map.token_count() >= 2 {
        obs.nontrivial();
    }
    Verdict::Pass
}

fn check(c: &Case, obs: &mut Obs) -> Verdict {
    match c {
        Case::Text(t) => check_text(t, obs),
        Case::DataUrl { map, before, after, legacy } => check_data_url(map, before, after, *legacy, obs),
        Case::Detect { map, cuts, max_read } => check_detect(map, cuts, *max_read, obs),
    }
}

fn url() -> BoxedStrategy<String> {
    prop_oneof![
        4 => proptest::sample::select(vec!["a.js.map", "http://h/x.map?q=1", "../maps/ü.map", "data:application/json;base64,e30=", "x y.map", "", "file:///abs.map", "@scope/pkg.map", "#frag", "//# sourceMappingURL=nested"]).prop_map(|s| s.to_string()),
        1 => "[a-z./]{1,12}".prop_map(|s| s),
    ]
    .boxed()
}

fn pad() -> BoxedStrategy<String> {
    prop_oneof![3 => Just(String::new()), 1 => Just(" ".to_string()), 1 => Just("\t ".to_string()), 1 => Just("  ".to_string())].boxed()
}

fn line() -> BoxedStrategy<Line> {
    let code = proptest::sample::select(vec![
        "var a=1;", "", "  x()", "/* c */", "function f(){}", "// just a comment", "//", "é=\"//# sourceMappingURL=in-string\";", "//# sourceURL=foo.js",
    ])
    .prop_map(|s| Line::Code(s.to_string()));
    let look = proptest::sample::select(vec![
        " //# sourceMappingURL=indented.map",
        "\t//@ sourceMappingURL=indented-legacy.map",
        "a();//# sourceMappingURL=midline.map",
        "//#sourceMappingURL=nospace.map",
        "// # sourceMappingURL=extraspace.map",
        "//# sourcemappingurl=lowercase.map",
        "//# SourceMappingURL=uppercase.map",
        "//# sourceMappingURL",
        "//# sourceMappingURL =spaced.map",
        "/# sourceMappingURL=oneslash.map",
        "///# sourceMappingURL=threeslash.map",
        "//! sourceMappingURL=bang.map",
        "\u{feff}//# sourceMappingURL=bom.map",
        // characters that break lines elsewhere but not here: the comment does not begin the line
        "x();\u{2028}//# sourceMappingURL=after-ls.map",
        "x();\u{2029}//@ sourceMappingURL=after-ps.map",
        "x();\u{85}//# sourceMappingURL=after-nel.map",
        "x();\u{b}//# sourceMappingURL=after-vt.map",
        "x();\u{c}//# sourceMappingURL=after-ff.map",
        "\u{a0}//# sourceMappingURL=after-nbsp.map",
        "//＃ sourceMappingURL=fullwidth-hash.map",
        // comment lines of 21+ bytes with a multi-byte character at / around byte 21
        "//# sourceURL=pages/ñandú.js",
        "//# sourceMappingURL→x.map",
        "//@ sourceMappingUR→=x.map",
        "//# sourceMappingURé=x",
        "//@ author: José Ibáñez, 2020",
        "//# 01234567890123456😀.map",
        "//# 0123456789012345漢字.map",
    ])
    .prop_map(|s| Line::LookAlike(s.to_string()));
    let comment = (any::<bool>(), pad(), url(), pad()).prop_map(|(legacy, pad_l, url, pad_r)| Line::Comment { legacy, pad_l, url, pad_r });
    prop_oneof![4 => code, 3 => look, 2 => comment].boxed()
}

fn lines(max: usize) -> BoxedStrategy<Vec<(Line, bool)>> {
    vec((line(), proptest::bool::weighted(0.3)), 0..=max).boxed()
}

fn texts(_t: Tier) -> BoxedStrategy<Case> {
    (lines(8), any::<bool>(), vec(any::<u16>(), 0..4), prop_oneof![2 => Just(0usize), 1 => Just(1usize), 1 => 2usize..20])
        .prop_map(|(lines, final_newline, cuts, max_read)| Case::Text(TextCase { lines, final_newline, cuts, max_read }))
        .boxed()
}

fn code_lines(max: usize) -> BoxedStrategy<Vec<(Line, bool)>> {
    // lines without a real comment (look-alikes allowed) so that the embedded one is the first
    vec(
        (
            line().prop_map(|l| match l {
                Line::Comment { .. } => Line::Code("x();".into()),
                other => other,
            }),
            proptest::bool::weighted(0.3),
        ),
        0..=max,
    )
    .boxed()
}

fn data_urls(t: Tier) -> BoxedStrategy<Case> {
    let p = MMParams { max_tokens: t.pick(20, 60), ..MMParams::regular(t) };
    (mm_strategy(p), code_lines(4), lines(3), any::<bool>())
        .prop_map(|(map, before, after, legacy)| Case::DataUrl { map, before, after, legacy })
        .boxed()
}

fn detect(t: Tier) -> BoxedStrategy<Case> {
    let p = MMParams { max_tokens: t.pick(12, 40), ..MMParams::regular(t) };
    let anymap = prop_oneof![
        3 => mm_strategy(p).prop_map(MAny::Regular),
        2 => hermes_strategy(p).prop_map(MAny::Hermes),
        2 => index_strategy(p, 1).prop_map(MAny::Index),
    ];
    (anymap, vec(any::<u16>(), 0..4), prop_oneof![2 => Just(0usize), 1 => Just(1usize), 1 => 2usize..40])
        .prop_map(|(map, cuts, max_read)| Case::Detect { map, cuts, max_read })
        .boxed()
}

/// Maps whose serialised form is tens of kilobytes up to several megabytes (payload sizes
/// around 48 KiB, 64 KiB and beyond the 8 MiB mark for detection).
fn big_payloads(_t: Tier) -> BoxedStrategy<Case> {
    let p = MMParams { max_tokens: 6, ..MMParams::regular(Tier::Quick) };
    (
        mm_strategy(p),
        proptest::sample::select(vec![49_000usize, 49_149, 49_150, 49_151, 50_000, 65_534, 65_535, 65_536, 70_000, 131_072, 200_000]),
        0usize..40,
        any::<bool>(),
    )
        .prop_map(|(mut map, n, d, detect)| {
            if map.sources.is_empty() {
                map.sources.push("big.js".into());
            }
            map.contents = vec![Some("0123456789abcde\n".repeat((n + d) / 16 + 1))];
            if detect {
                Case::Detect { map: MAny::Regular(map), cuts: vec![], max_read: 0 }
            } else {
                Case::DataUrl { map, before: vec![(Line::Code("x();".into()), false)], after: vec![], legacy: false }
            }
        })
        .boxed()
}

fn huge_detection(_t: Tier) -> BoxedStrategy<Case> {
    (proptest::sample::select(vec![8_388_000usize, 8_388_608, 9_000_000]), 0u8..3)
        .prop_map(|(n, kind)| {
            let mut map = MM {
                file: None,
                root: None,
                sources: vec!["huge.js".into()],
                contents: vec![Some("0123456789abcde\n".repeat(n / 16 + 1))],
                names: vec![],
                tokens: vec![],
                ignore: vec![],
                debug_id: None,
                route: Route::Raw,
                json: JsonStyle::default(),
            };
            let any = match kind {
                0 => MAny::Regular(map),
                1 => {
                    map.route = Route::Doc;
                    MAny::Hermes(MHermes { map, fb: vec![None] })
                }
                _ => MAny::Index(MIndex {
                    file: None,
                    sections: vec![MSection { off: (0, 0), url: None, map: Some(MAny::Regular(map)) }],
                    via_api: true,
                    order: vec![0],
                    style: JsonStyle::default(),
                }),
            };
            Case::Detect { map: any, cuts: vec![], max_read: 0 }
        })
        .boxed()
}

fn subs() -> Vec<Sub> {
    vec![
        gen_sub("big_payloads", big_payloads, |t| t.pick(200, 1_000), check),
        gen_sub("huge_detection", huge_detection, |t| t.pick(4, 24), check),
        gen_sub("texts", texts, |t| t.pick(200_000, 1_000_000), check),
        gen_sub("data_urls", data_urls, |t| t.pick(30_000, 150_000), check),
        gen_sub("detection", detect, |t| t.pick(30_000, 150_000), check),
    ]
}

pub const DEF: PropertyDef = PropertyDef {
    id: "C18",
    rule: "texts: 0..8 lines from code lines, both comment forms (URL padded with blanks/tabs, empty URL) and 13 look-alikes (indented, \
           mid-line, missing/extra space, wrong case, no '=', BOM ...), each line ending in \\n or \\r\\n, with/without final newline; slice \
           and chunked-reader forms against a reference scan. data_urls: model maps (C01 domain) -> to_data_url -> decode_data_url, and the \
           URL embedded in a generated file, located and decoded via get_embedded_sourcemap, compared with decode(serialise(m)). detection: \
           serialised regular / Hermes / index maps through is_sourcemap_slice and the chunked reader form. Non-trivial (texts) = a \
           look-alike before the real comment and the comment not on the last line",
    assumptions: &["texts are valid UTF-8 and lines end in \\n or \\r\\n (lone \\r is not a line ending for discovery)"],
    subs,
};
