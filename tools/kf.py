#!/usr/bin/env python3
"""Maintains /verif/known_findings.json (committed; never touched by checks at run time).
  tools/kf.py fixed <property> <commit> <reproducer> <what failed>
  tools/kf.py known <id> <property> <reproducer> <what fails>
"""
import json, sys
P = "/verif/known_findings.json"
d = json.load(open(P))
a = sys.argv[1:]
if a[0] == "fixed":
    prop, commit, repro, what = a[1], a[2], a[3], a[4]
    d["findings"].append({"kind": "fixed", "property": prop, "commit": commit,
                          "line": f"fixed: property={prop} {commit} {what}", "reproducer": repro})
elif a[0] == "known":
    kid, prop, repro, what = a[1], a[2], a[3], a[4]
    d["findings"].append({"kind": "known", "id": kid, "property": prop, "what": what, "reproducer": repro})
json.dump(d, open(P, "w"), indent=2, ensure_ascii=False)
print(len(d["findings"]), "entries")
